#!/bin/bash
set -e
cd "$(dirname "$0")"
export PATH=/opt/veriftools/go1.26.8/bin:$PATH GOFLAGS=-mod=mod GOPROXY=off GOSUMDB=off GOTOOLCHAIN=local
mkdir -p bin evidence replay
(cd govc && go build -o ../bin/govc .)
echo "govc built"
