#!/bin/bash
# validates MANIFEST.json and all evidence files against the schemas
python3-vt - <<'PY'
import json,jsonschema,glob,sys
ok=True
try:
    jsonschema.validate(json.load(open('/verif/MANIFEST.json')),json.load(open('/root/.vp/MANIFEST.schema.json')))
except Exception as e:
    print("MANIFEST:",e); ok=False
es=json.load(open('/root/.vp/EVIDENCE.schema.json'))
for f in sorted(glob.glob('/verif/evidence/*.json')):
    try: jsonschema.validate(json.load(open(f)),es)
    except Exception as e: print(f,str(e)[:300]); ok=False
print("valid" if ok else "INVALID")
PY
