#!/bin/bash
# selftest/run.sh [Cxx ...] : applies each must-fail mutant to a scratch copy of /repo and
# demands that the check reports the expected obligation. A mutant that verifies is a hole.
cd "$(dirname "$0")/.."
PROPS="$@"; [ -z "$PROPS" ] && PROPS=$(ls selftest/mutants)
fail=0; n=0
for P in $PROPS; do
  for D in selftest/mutants/$P/*.diff; do
    [ -f "$D" ] || continue
    n=$((n+1))
    S=$(mktemp -d /tmp/verif-mut.XXXXXX)
    rsync -a --exclude .git /repo/ $S/repo/
    EXP=$(head -1 "$D" | sed 's/^# expect: //')
    if ! (cd $S/repo && patch -p1 -s < "$OLDPWD/$D" >/dev/null 2>&1); then echo "MUTANT-STALE $D (does not apply)"; fail=1; rm -rf $S; continue; fi
    mkdir -p $S/out
    OUT=$(VERIF_REPO=$S/repo VERIF_OUT=$S/out ./check $P --tier quick 2>&1); rc=$?
    ok=1
    [ $rc -eq 1 ] || ok=0
    for E in $(echo "$EXP" | tr ',' ' '); do
      echo "$OUT" | grep -qF "obligation $E:" || ok=0
    done
    if [ $ok -eq 1 ]; then echo "MUTANT-CAUGHT $D -> $EXP"; else echo "MUTANT-MISSED $D (rc=$rc, expected $EXP)"; echo "$OUT" | tail -5; fail=1; fi
    rm -rf $S
  done
done
echo "selftest: $n mutants, fail=$fail"
exit $fail
