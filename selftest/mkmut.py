#!/usr/bin/env python3
"""mkmut.py <prop> <name> <file-relative-to-repo> <expect-obligation> : reads OLD\n---\nNEW from stdin, writes selftest/mutants/<prop>/<name>.diff"""
import sys,subprocess,os,tempfile
prop,name,rel,expect=sys.argv[1:5]
old,new=sys.stdin.read().split("\n---\n")
old=old.strip("\n"); new=new.strip("\n")
src=open("/repo/"+rel).read()
assert src.count(old)==1, "pattern occurs %d times"%src.count(old)
mut=src.replace(old,new)
d=tempfile.mkdtemp()
os.makedirs(d+"/a/"+os.path.dirname(rel)); os.makedirs(d+"/b/"+os.path.dirname(rel))
open(d+"/a/"+rel,"w").write(src); open(d+"/b/"+rel,"w").write(mut)
diff=subprocess.run(["diff","-u","a/"+rel,"b/"+rel],cwd=d,capture_output=True,text=True).stdout
os.makedirs("/verif/selftest/mutants/"+prop,exist_ok=True)
open("/verif/selftest/mutants/%s/%s.diff"%(prop,name),"w").write("# expect: %s\n"%expect+diff)
subprocess.run(["rm","-rf",d])
print("wrote",name)
