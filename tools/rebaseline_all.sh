#!/bin/bash
# tools/rebaseline_all.sh: after any change of a contract, rewrite every property's baseline (the list of obligation names
# that must be generated again) and then run every check once; prints one line per property and fails if any check fails.
cd /verif
P="C01 C02 C03 C04 C05 C06 C07 C08 C09 C11 C12 C13 C15 C16 C17 C18"
for p in $P; do GOVC_WRITE_BASELINE=1 ./check $p --tier quick 2>&1 | tail -1; done
bad=0
for p in $P; do ./check $p --tier quick >/dev/null 2>&1 || { echo "$p FAILS"; bad=1; }; done
[ $bad -eq 0 ] && echo "all checks pass"
exit $bad
