#!/usr/bin/env python3
"""explain.py <query.smt2> [depth]: for a sat query whose goal is (not (=> reach (and c1 c2 ...))), evaluates each conjunct in the model."""
import sys,subprocess
src=open(sys.argv[1]).read()
lines=src.split("\n")
gi=max(i for i,l in enumerate(lines) if l.startswith("(assert (not "))
goal=lines[gi][len("(assert (not "):-2]
def split(s):
    out=[];d=0;cur=""
    for ch in s:
        if ch=="(": d+=1
        if ch==")": d-=1
        if ch==" " and d==0:
            if cur: out.append(cur)
            cur=""
        else: cur+=ch
    if cur: out.append(cur)
    return out
def conj(s):
    s=s.strip()
    if s.startswith("(=> "):
        parts=split(s[4:-1]); return conj(parts[-1])
    if s.startswith("(and "):
        r=[]
        for p in split(s[5:-1]): r+=conj(p)
        return r
    return [s]
cs=conj(goal)
pre="\n".join(lines[:gi+1])+"\n(check-sat)\n"
q=pre+"".join("(echo \"@@%d\")\n(get-value (%s))\n"%(i,c) for i,c in enumerate(cs))
open("/tmp/explain.smt2","w").write(q)
out=subprocess.run(["z3-new","-t:30000","/tmp/explain.smt2"],capture_output=True,text=True).stdout
print(out.split("\n")[0])
chunks=out.split("@@")[1:]
for ch in chunks:
    i=int(ch.split("\n")[0].strip('"'))
    body=ch[ch.index("\n"):].strip()
    v=body.rstrip(")").split()[-1] if body else "?"
    if v!="true": print(v, "::", cs[i][:600]); print()
