#!/usr/bin/env python3
"""splitgoal.py <query.smt2>: checks each top-level conjunct of the goal separately."""
import sys,subprocess
src=open(sys.argv[1]).read()
lines=src.split("\n")
gi=max(i for i,l in enumerate(lines) if l.startswith("(assert (not "))
goal=lines[gi][len("(assert (not "):-2]
def split(s):
    out=[];d=0;cur=""
    for ch in s:
        if ch=="(": d+=1
        if ch==")": d-=1
        if ch==" " and d==0:
            if cur: out.append(cur)
            cur=""
        else: cur+=ch
    if cur: out.append(cur)
    return out
def conj(s,pre):
    s=s.strip()
    if s.startswith("(=> "):
        parts=split(s[4:-1]); return conj(parts[-1], pre+parts[:-1])
    if s.startswith("(and "):
        r=[]
        for p in split(s[5:-1]): r+=conj(p,pre)
        return r
    return [(pre,s)]
for pre,c in conj(goal,[]):
    g=c
    for p in reversed(pre): g="(=> %s %s)"%(p,g)
    q="\n".join(lines[:gi])+"\n(assert (not %s))\n(check-sat)\n"%g
    open("/tmp/sg.smt2","w").write(q)
    out=subprocess.run(["z3-new","-t:%s"%(sys.argv[2] if len(sys.argv)>2 else "10000"),"/tmp/sg.smt2"],capture_output=True,text=True).stdout.split("\n")[0]
    print(out, "::", c[:300])
