#!/bin/bash
# tools/mutation_campaign.sh <pkgdir> <file.go> [workers]   e.g. server server/server.go 4
# Enumerates simple mutants (tools/mutate) of every function under contract in the file, and for each
# compiling mutant runs govc on that one unit against a scratch copy. Survivors (mutants whose unit
# still verifies) are candidates for holes in the contracts (or equivalent mutants): listed in
# /tmp/mutcamp/<pkg>/survivors.txt for review.
cd /verif
PKG=$1; FILE=$2; W=${3:-4}
export PATH=/opt/veriftools/go1.26.8/bin:$PATH GOFLAGS=-mod=mod GOPROXY=off GOSUMDB=off GOTOOLCHAIN=local
OUT=/tmp/mutcamp/$(echo $PKG | tr / _); rm -rf $OUT; mkdir -p $OUT/src
UNITS=$(grep -h "^//@ unit " /repo/$PKG/verif_contracts.go | awk '{print $3}' | grep -v '\$' | sort -u)
# skip trusted units
TR=$(awk '/^\/\/@ unit /{u=$3} /^\/\/@ trusted/{print u}' /repo/$PKG/verif_contracts.go)
UNITS=$(comm -23 <(echo "$UNITS") <(echo "$TR" | sort -u))
bin/mutate /repo/$FILE $OUT/src $UNITS > $OUT/list.tsv
echo "$(wc -l < $OUT/list.tsv) mutants"
for i in $(seq 1 $W); do rm -rf $OUT/w$i; mkdir -p $OUT/w$i; rsync -a --exclude .git /repo/ $OUT/w$i/repo/; done
run() {
  k=$1; w=$2; PKG=$3; FILE=$4; OUT=$5
  line=$(grep -P "^$k\t" $OUT/list.tsv); unit=$(echo "$line" | cut -f2)
  R=$OUT/w$w/repo
  exec 9>$OUT/w$w/lock; flock 9
  cp $OUT/src/$k.go $R/$FILE
  if ! (cd $R && go build ./$PKG/ >/dev/null 2>&1); then echo -e "$line\tINVALID"; cp /repo/$FILE $R/$FILE; return; fi
  # the unit and the closures inside it that are under contract themselves
  us="$PKG.$unit"; for cu in $(grep -h "^//@ unit $unit\\$" /repo/$PKG/verif_contracts.go | awk '{print $3}'); do us="$us,$PKG.$cu"; done
  res=$(bin/govc -repo $R -spec spec -units "$us" 2>&1 | tail -1)
  cp /repo/$FILE $R/$FILE
  if echo "$res" | grep -q " 0 problems"; then echo -e "$line\tSURVIVED"; else echo -e "$line\tkilled"; fi
}
export -f run
cut -f1 $OUT/list.tsv | awk -v W=$W '{print $1, (NR%W)+1}' | xargs -P $W -n 2 bash -c 'run $0 $1 '"$PKG $FILE $OUT" > $OUT/results.tsv 2>&1
grep -c killed $OUT/results.tsv; grep SURVIVED $OUT/results.tsv > $OUT/survivors.txt; wc -l $OUT/survivors.txt
for i in $(seq 1 $W); do rm -rf $OUT/w$i; done
