#!/usr/bin/env python3
"""Adds the rejection clauses of the server contracts to property C12's selection (idempotent):
malformed requests/operations are answered FAILED or with a clean error and change nothing."""
import re
p='/repo/server/verif_contracts.go'
s=open(p).read()
T={
 r'modifyEntry':['nil-op','bad-op-type','unauthorised-no-rib','unauthorised-answer','one-of'],
 r'Server\.doModify':['unknown-client','unsupported-mode','one-answer-per-op','rib-ready'],
 r'Server\.Flush':['nil-req','no-ni','unknown-ni','election-gated','one-of'],
 r'Server\.checkFlushRequest':['nil-req','no-ni','zero-id'],
 r'Server\.doGet':['nil-req','empty-name','unknown-instance','unsupported-table','rib-untouched','done-once'],
 r'checkElectionForModify':['missing-id','reject-one','failed-shape'],
 r'Server\.Modify\$1':['multi-field-rejected','multi-field-no-effect','other-sessions-untouched'],
}
lines=s.split('\n')
cur=None
for i,l in enumerate(lines):
    m=re.match(r'//@ unit (\S+)$',l)
    if m: cur=m.group(1)
    if l.startswith('//@ props') and cur:
        for pat,labels in T.items():
            if re.fullmatch(pat,cur):
                toks=l.split()
                if 'C12' in toks: continue
                for lab in labels:
                    t='C12:ensures#'+lab
                    if t not in toks: toks.append(t)
                if 'C12:safety' not in toks: toks.append('C12:safety')
                lines[i]=' '.join(toks)
        cur=None
open(p,'w').write('\n'.join(lines))
print("tagged")
