#!/usr/bin/env python3
"""Adds the rejection clauses of the rib contracts to property C12's selection (idempotent).
C12 = invalid content is answered FAILED / clean error without effect; the clauses below are the
ones that state exactly that for each unit."""
import re,sys
p='/repo/rib/verif_contracts.go'
s=open(p).read()
T={
 r'RIB\.AddEntry':['fatal','fatal-only-if'],
 r'RIB\.addEntryInternal':['fatal-unknown-ni','fatal-only-if','answered-or-held'],
 r'RIB\.DeleteEntry':['own-id-fail','held-untouched'],
 r'RIBHolder\.Add(IPv4|IPv6|MPLS|NextHopGroup|NextHop)':['nil','err-not-installed','no-trace'],
 r'RIBHolder\.Delete(IPv4|IPv6|MPLS|NextHopGroup|NextHop)':['nil','err-not-removed','no-trace'],
 r'RIB\.canResolve':['unknown-ni','nhg-fatal','v4-fatal','v6-fatal','mpls-fatal','err-means-no'],
 r'RIB\.canDelete':['unknown-ni'],
 r'RIB\.checkFn':['unknown-op'],
}
lines=s.split('\n')
cur=None
for i,l in enumerate(lines):
    m=re.match(r'//@ unit (\S+)$',l)
    if m: cur=m.group(1)
    if l.startswith('//@ props') and cur:
        for pat,labels in T.items():
            if re.fullmatch(pat,cur):
                toks=l.split()
                for lab in labels:
                    t='C12:ensures#'+lab
                    if t not in toks: toks.append(t)
                if 'C12:safety' not in toks: toks.append('C12:safety')
                lines[i]=' '.join(toks)
open(p,'w').write('\n'.join(lines))
