#!/bin/bash
# tools/survivor_tests.sh <pkgdir> <file.go> : runs the package's existing tests on each surviving mutant;
# survivors that also pass the tests are the interesting ones (realistic hidden changes).
PKG=$1; FILE=$2; OUT=/tmp/mutcamp/$(echo $PKG | tr / _)
S=$(mktemp -d /tmp/surv.XXXXXX); rsync -a --exclude .git /repo/ $S/repo/
while IFS=$'\t' read -r k unit kind line summary res; do
  cp $OUT/src/$k.go $S/repo/$FILE
  if (cd $S/repo && timeout 300 go test -count=1 -timeout 120s ./$PKG/ >/dev/null 2>&1); then echo -e "$k\t$unit\t$kind\t$line\t$summary\tPASSES-TESTS"; else echo -e "$k\t$unit\t$kind\t$line\t$summary\tfails-tests"; fi
done < $OUT/survivors.txt
rm -rf $S
