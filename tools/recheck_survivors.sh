#!/bin/bash
# tools/recheck_survivors.sh <pkgdir> <file.go> [workers]: re-runs govc on the survivors of the last campaign
# (after contracts were strengthened) and rewrites survivors.txt with those that still survive.
cd /verif
PKG=$1; FILE=$2; W=${3:-6}
export PATH=/opt/veriftools/go1.26.8/bin:$PATH GOFLAGS=-mod=mod GOPROXY=off GOSUMDB=off GOTOOLCHAIN=local
OUT=/tmp/mutcamp/$(echo $PKG | tr / _)
for i in $(seq 1 $W); do rm -rf $OUT/w$i; mkdir -p $OUT/w$i; rsync -a --exclude .git /repo/ $OUT/w$i/repo/; done
run() {
  k=$1; w=$2; PKG=$3; FILE=$4; OUT=$5
  line=$(grep -P "^$k\t" $OUT/survivors.txt | cut -f1-5); unit=$(echo "$line" | cut -f2)
  R=$OUT/w$w/repo
  exec 9>$OUT/w$w/lock; flock 9
  cp $OUT/src/$k.go $R/$FILE
  # the unit and the closures inside it that are under contract themselves
  us="$PKG.$unit"; for cu in $(grep -h "^//@ unit $unit\\$" /repo/$PKG/verif_contracts.go | awk '{print $3}'); do us="$us,$PKG.$cu"; done
  res=$(bin/govc -repo $R -spec spec -units "$us" 2>&1 | tail -1)
  cp /repo/$FILE $R/$FILE
  if echo "$res" | grep -q " 0 problems"; then echo -e "$line\tSURVIVED"; else echo -e "$line\tkilled"; fi
}
export -f run
cut -f1 $OUT/survivors.txt | awk -v W=$W '{print $1, (NR%W)+1}' | xargs -P $W -n 2 bash -c 'run $0 $1 '"$PKG $FILE $OUT" > $OUT/recheck.tsv 2>&1
grep -c killed $OUT/recheck.tsv; grep SURVIVED $OUT/recheck.tsv > $OUT/survivors2.txt; wc -l $OUT/survivors2.txt
for i in $(seq 1 $W); do rm -rf $OUT/w$i; done
