#!/usr/bin/env python3
import json
TECH="contract-based deductive verification: weakest-precondition VCs generated over go/ssa of the real code from //@ contracts, discharged by z3 5.1.0 / z3 4.8.12 / cvc5 1.0.3"
NOTE_COMMON=" Sequential semantics only (goroutine interleaving, channel/mutex blocking not modelled); partial correctness; trusted: go/ssa front end, the govc SSA->SMT translation, the SMT solvers, and the assumed contracts listed in the evidence file."
P={
"C01":("Per-operation view contracts on every table primitive of package rib (doAdd*/Add*/Delete*/lockless* for the five AFT tables) and on AddEntry/addEntryInternal/DeleteEntry/Flush: an operation is acknowledged only at a program point where its entry is in (ADD/REPLACE) or absent from (DELETE) the table, with the key and reference fields of the request; failed or held operations leave every table unchanged; every other key and table is proved untouched; explicit REPLACE requires presence; a DELETE of an MPLS label removes only the named 64-bit key. The fold over acknowledged operations then follows by induction over calls (meta-argument, DESIGN 7 C01).",
       "candidateRIB (proto->ygot pipeline) and ygot.MergeStructInto are assumed contracts; entry payload beyond key and reference fields is abstract.","§7 C01"),
"C02":("canResolve is proved exact against the resolvability predicate of the property statement for all five entry kinds (instance named by the entry or its own, every next-hop of a group, backup ignored), fatal inputs give an error, and addEntryInternal is proved to answer or hold the operation and to fail it at once when forward references are disabled.",
       "The link holder.checkFn == RIB.checkFn(.., holder.name, ..) is an assumption on a function-typed field; completeness of retries over an arbitrary history is not claimed (per-call contracts only).","§7 C02"),
"C03":("canDelete is proved exact (refused iff installed and counter non-zero; top-level entries always deletable); the counter primitives, handleReferences (three instantiations) and handleNHGReferences are proved against delta specifications with set semantics for group members; DeleteEntry/Flush are proved to leave the representation invariants intact.",
       "The global invariant counter == number of installed referrers is not yet discharged as one invariant; only the per-call deltas and canDelete exactness are.","§7 C03"),
"C04":("checkElectionForModify is proved sound and complete against authorised(op, session, server); modifyEntry is proved not to touch the RIB region unless authorised and to answer FAILED (or an error) otherwise; doModify assigns only its channels and the RIB region (election and session state are outside its frame).",
       "An election completing between the snapshot taken by doModify and its operations (schedules) is outside this family.","§7 C04"),
"C05":("isNewMaster is proved to implement the unsigned 128-bit order with ties accepted; runElection is proved to keep the running maximum, move the primary exactly when the announced id is >= the current one, report the maximum, and leave all state unchanged on its error paths; its election-state update is proved to happen under the write lock.",
       "Atomicity under concurrency follows from the lock discipline by a meta-argument (DESIGN 3.4), not from a model of interleavings.","§7 C05"),
"C06":("doModify is proved to emit exactly one message per operation; modifyEntry maps oks to RIB_PROGRAMMED immediately followed by FIB_PROGRAMMED (only in FIB-ack mode) and fails to FAILED; AddEntry/addEntryInternal are proved to give verdicts only to the operation or previously held ones, to remove an operation from the held set when it gets its verdict, and to answer-or-hold the operation; DeleteEntry gives exactly one verdict.",
       "Sender-only delivery across sessions (owner-less held set) and eventual delivery (liveness) are not decided; see known findings.","§7 C06"),
"C08":("checkFlushRequest is proved against the election-gating table of the specification (codes strict, detail reasons in the accepted set); Server.Flush is proved to leave the RIB region and election state untouched whenever it rejects and to answer OK otherwise; RIB.Flush is proved (eight loops, deletion during iteration, all map iteration orders) to empty exactly the listed instances, leave the others untouched, return nil and release every lock.",
       "Cross-instance reference counters after a partial flush are not part of the claim.","§7 C08"),
"C09":("checkParams, updateParams, newClient, deleteClient, setClientParams, checkClientsConsistent, runElection (error paths) and doModify (mode check) are proved against the status table of DESIGN Appendix C, with frames showing that rejecting paths assign at most the session's own entry.",
       "The receive loop of Modify (Modify$1) is not yet under contract; interleavings of the two stream goroutines are outside this family.","§7 C09"),
"C11":("Lock-discipline obligations (reads of guarded fields under R/W, writes under W, no self-deadlocking acquire, balanced release) are discharged for every function under contract in server and rib, for the guards declared in the contract files.",
       "Lock discipline only: deadlock freedom, crashes under concurrency and quiescent consistency under real interleavings are not decided. Guarded-field accesses in functions not under contract are listed in the evidence.","§7 C11"),
"C12":("Zero-annotation no-panic sweep: every nil dereference, index, nil-map write, comma-less type assertion and explicit panic in every function under contract is an obligation, proved under wire-validity and the representation invariants only; the no-effect-on-rejection clauses are those of C01/C04/C09.",
       "Panics inside dependencies are covered only through stated preconditions (candidateRIB is a trusted contract: undefined enum numbers are outside its assumed precondition).","§7 C12"),
"C16":("Add*/Delete*/lockless* are proved to emit exactly one notification per table change when a hook is set and none otherwise; SetPostChangeHook/AddNetworkInstance/New are proved to maintain hookInv (every instance, whenever created, carries the hook last set); copyRIBs is proved to hand fresh copies of every instance to the resolved-entry hook.",
       "Hooks are arbitrary client code modelled as a ghost event that does not call back into the RIB; ygot.DeepCopy is an assumed contract (abstract equality of the copy is not claimed).","§7 C16"),
}
na=[
 ("C10","not applicable: quantifies over crash points of streams and asks for continued serviceability (blocking, goroutine lifetime, lock release across goroutines); the translation drops channel blocking and goroutines, so no pre/postcondition can express it (DESIGN.md §8)."),
 ("C14","not applicable: bounded-time return, Done signalling and no-goroutine-left-behind are liveness/goroutine-census facts outside partial-correctness contracts (DESIGN.md §8)."),
 ("C19","not applicable: about whole test programs run over gRPC against whole (partly absent) servers; no function whose contract states a verdict (DESIGN.md §8)."),
]
pending=["C07","C13","C15","C17","C18"]
checks=[]
for pid in sorted(P):
    text,note,ref=P[pid]
    checks.append({"property_id":pid,"quick_cmd":"./check %s --tier quick"%pid,"thorough_cmd":"./check %s --tier thorough"%pid,
      "evidence_file":"/verif/evidence/%s.json"%pid,"replay_cmd_template":"./check %s --replay {path}"%pid,"engine":"govc",
      "level_claimed":{"category":"proof","text":text,"design_ref":ref},"level_note":note+NOTE_COMMON,"technique":TECH})
import subprocess
commits=subprocess.run("git -C /repo log --format=%h --grep='^verif:'",shell=True,capture_output=True,text=True).stdout.split()
m={"version":1,"setup_cmd":"./setup.sh",
 "hooks":{"guard":"verif","enable":"packages are loaded with -tags verif; the guarded files are the comment-only contract files <pkg>/verif_contracts.go read by govc","baseline_off_cmd":"cd /repo && go test -vet=off -count=1 ./...","source_commits":commits,"add_only":True},
 "engines":[{"name":"govc","path":"/verif/govc","serves_properties":sorted(P),"kind_free_text":"VC generator over go/ssa (NaiveForm) with Gobra-style //@ contracts; SMT back ends z3 5.1.0, z3 4.8.12, cvc5 1.0.3"}],
 "checks":checks,
 "notes":"Fix commits in /repo (message prefix 'fix:') and their findings are recorded in known_findings.json. Properties listed under not_applicable with 'not claimed yet' are work in progress.",
 "not_applicable":[{"property_id":p,"reason":r} for p,r in na]+[{"property_id":p,"reason":"not claimed yet: contracts for this property are still being written (work in progress, see DESIGN.md §7)"} for p in pending]}
json.dump(m,open("/verif/MANIFEST.json","w"),indent=1)
print("manifest written:",len(checks),"checks")
