// mutate: enumerates simple mutants of the functions under contract in one Go source file.
// usage: mutate <file.go> <outdir> <unit>...   (unit = Func or Type.Method)
// For every mutation point it writes <outdir>/<k>.go (the whole mutated file) and a line
// "<k>\t<unit>\t<kind>\t<line>\t<summary>" to stdout.
package main

import (
	"bytes"
	"fmt"
	"go/ast"
	"go/parser"
	"go/printer"
	"go/token"
	"os"
	"path/filepath"
	"strings"
)

func unitName(fd *ast.FuncDecl) string {
	if fd.Recv == nil || len(fd.Recv.List) == 0 {
		return fd.Name.Name
	}
	t := fd.Recv.List[0].Type
	if s, ok := t.(*ast.StarExpr); ok {
		t = s.X
	}
	if ix, ok := t.(*ast.IndexExpr); ok {
		t = ix.X
	}
	if id, ok := t.(*ast.Ident); ok {
		return id.Name + "." + fd.Name.Name
	}
	return fd.Name.Name
}

func isLogCall(c *ast.CallExpr) bool {
	var b bytes.Buffer
	printer.Fprint(&b, token.NewFileSet(), c.Fun)
	s := b.String()
	return strings.HasPrefix(s, "log.") || strings.HasPrefix(s, "glog.") || strings.HasPrefix(s, "fmt.Print") || strings.Contains(s, ".Infof") || strings.Contains(s, ".Errorf") && strings.HasPrefix(s, "log")
}

func main() {
	file, out := os.Args[1], os.Args[2]
	want := map[string]bool{}
	for _, u := range os.Args[3:] {
		want[u] = true
	}
	src, _ := os.ReadFile(file)
	os.MkdirAll(out, 0o755)
	k := 0
	emit := func(fset *token.FileSet, f *ast.File, unit, kind string, pos token.Pos, summary string) {
		var b bytes.Buffer
		if err := printer.Fprint(&b, fset, f); err != nil {
			return
		}
		k++
		os.WriteFile(filepath.Join(out, fmt.Sprintf("%d.go", k)), b.Bytes(), 0o644)
		fmt.Printf("%d\t%s\t%s\t%d\t%s\n", k, unit, kind, fset.Position(pos).Line, summary)
	}
	// count mutation points first on a reference parse, then re-parse for each mutation
	type point struct {
		unit string
		idx  int
	}
	ref := token.NewFileSet()
	rf, err := parser.ParseFile(ref, file, src, parser.ParseComments)
	if err != nil {
		panic(err)
	}
	for _, d := range rf.Decls {
		fd, ok := d.(*ast.FuncDecl)
		if !ok || fd.Body == nil || !want[unitName(fd)] {
			continue
		}
		unit := unitName(fd)
		// enumerate node indices by walking
		n := 0
		ast.Inspect(fd.Body, func(x ast.Node) bool {
			if x != nil {
				n++
			}
			return true
		})
		for target := 0; target < n; target++ {
			fset := token.NewFileSet()
			f, _ := parser.ParseFile(fset, file, src, parser.ParseComments)
			var fn *ast.FuncDecl
			for _, d2 := range f.Decls {
				if g, ok := d2.(*ast.FuncDecl); ok && g.Body != nil && unitName(g) == unit && g.Name.Name == fd.Name.Name {
					fn = g
				}
			}
			if fn == nil {
				continue
			}
			i := -1
			var done bool
			var parents []ast.Node
			ast.Inspect(fn.Body, func(x ast.Node) bool {
				if x == nil {
					parents = parents[:len(parents)-1]
					return true
				}
				i++
				defer func() { parents = append(parents, x) }()
				if i != target || done {
					return true
				}
				done = true
				switch v := x.(type) {
				case *ast.ExprStmt:
					if c, ok := v.X.(*ast.CallExpr); ok && !isLogCall(c) {
						// delete the statement from its parent block / case
						var list *[]ast.Stmt
						switch p := parents[len(parents)-1].(type) {
						case *ast.BlockStmt:
							list = &p.List
						case *ast.CaseClause:
							list = &p.Body
						case *ast.CommClause:
							list = &p.Body
						}
						if list != nil {
							var b bytes.Buffer
							printer.Fprint(&b, fset, c.Fun)
							for j, s := range *list {
								if s == v {
									*list = append(append([]ast.Stmt{}, (*list)[:j]...), (*list)[j+1:]...)
									break
								}
							}
							emit(fset, f, unit, "del-call", v.Pos(), b.String())
						}
					}
				case *ast.IfStmt:
					var b bytes.Buffer
					printer.Fprint(&b, fset, v.Cond)
					v.Cond = &ast.UnaryExpr{Op: token.NOT, X: &ast.ParenExpr{X: v.Cond}}
					emit(fset, f, unit, "neg-if", v.Pos(), b.String())
				case *ast.BinaryExpr:
					repl := map[token.Token]token.Token{token.EQL: token.NEQ, token.NEQ: token.EQL, token.LSS: token.LEQ, token.LEQ: token.LSS, token.GTR: token.GEQ, token.GEQ: token.GTR, token.LAND: token.LOR, token.LOR: token.LAND}
					if nt, ok := repl[v.Op]; ok {
						var b bytes.Buffer
						printer.Fprint(&b, fset, v)
						old := v.Op
						v.Op = nt
						emit(fset, f, unit, "op-"+old.String(), v.Pos(), b.String())
					}
				case *ast.IncDecStmt:
					var b bytes.Buffer
					printer.Fprint(&b, fset, v)
					if v.Tok == token.INC {
						v.Tok = token.DEC
					} else {
						v.Tok = token.INC
					}
					emit(fset, f, unit, "incdec", v.Pos(), b.String())
				case *ast.BranchStmt:
					if v.Tok == token.CONTINUE && v.Label == nil {
						v.Tok = token.BREAK
						emit(fset, f, unit, "continue-break", v.Pos(), "continue")
					}
				}
				return true
			})
		}
	}
}
