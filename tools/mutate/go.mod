module mutate

go 1.26.8
