package reconciler

import (
	"testing"

	"github.com/openconfig/gribigo/rib"
	"sync/atomic"
)

func TestVerifReplay(t *testing.T) {
	src := rib.NewFake("DEFAULT", rib.DisableRIBCheckFn())
	dst := rib.NewFake("DEFAULT", rib.DisableRIBCheckFn())
	if err := dst.RIB().AddNetworkInstance("VRF-X"); err != nil {
		t.Fatal(err)
	}
	if err := dst.InjectNH("VRF-X", 1, "eth0"); err != nil {
		t.Fatal(err)
	}
	id := &atomic.Uint64{}
	ops, err := diff(src.RIB(), dst.RIB(), nil, id)
	if err != nil {
		t.Fatal(err)
	}
	if len(ops.Delete.NH) != 1 {
		t.Fatalf("REPLAY clause violated: want 1 NH delete for the target-only instance, got %d (ops empty=%v)", len(ops.Delete.NH), ops.IsEmpty())
	}
	if got := ops.Delete.NH[0].GetNetworkInstance(); got != "VRF-X" {
		t.Fatalf("delete targets %q", got)
	}
}
