package server

import (
	"testing"

	aftpb "github.com/openconfig/gribi/v1/proto/gribi_aft"
	spb "github.com/openconfig/gribi/v1/proto/service"
)

// Witness for server.Server.doModify/pre:server.modifyEntry#3.C06.held-owned (known finding, C06):
// held operations carry no owner. Session A (primary, election id 1) sends a next-hop-group whose
// next-hop is missing: it is held. Session B then wins the election and installs the next-hop: the
// result for A's operation id 100 is delivered on B's stream, which never sent that operation.
func TestVerifReplay(t *testing.T) {
	s, err := New()
	if err != nil {
		t.Fatal(err)
	}
	for _, c := range []string{"A", "B"} {
		if err := s.newClient(c); err != nil {
			t.Fatal(err)
		}
		if err := s.updateParams(c, &spb.SessionParameters{Redundancy: spb.SessionParameters_SINGLE_PRIMARY, Persistence: spb.SessionParameters_PRESERVE}); err != nil {
			t.Fatal(err)
		}
	}
	if _, err := s.runElection("A", &spb.Uint128{Low: 1}); err != nil {
		t.Fatal(err)
	}
	resA, errA := make(chan *spb.ModifyResponse, 16), make(chan error, 16)
	s.doModify("A", []*spb.AFTOperation{{
		Id: 100, NetworkInstance: DefaultNetworkInstanceName, Op: spb.AFTOperation_ADD, ElectionId: &spb.Uint128{Low: 1},
		Entry: &spb.AFTOperation_NextHopGroup{NextHopGroup: &aftpb.Afts_NextHopGroupKey{Id: 7, NextHopGroup: &aftpb.Afts_NextHopGroup{
			NextHop: []*aftpb.Afts_NextHopGroup_NextHopKey{{Index: 1, NextHop: &aftpb.Afts_NextHopGroup_NextHop{}}},
		}}},
	}}, resA, errA)
	if _, err := s.runElection("B", &spb.Uint128{Low: 2}); err != nil {
		t.Fatal(err)
	}
	resB, errB := make(chan *spb.ModifyResponse, 16), make(chan error, 16)
	s.doModify("B", []*spb.AFTOperation{{
		Id: 1, NetworkInstance: DefaultNetworkInstanceName, Op: spb.AFTOperation_ADD, ElectionId: &spb.Uint128{Low: 2},
		Entry: &spb.AFTOperation_NextHop{NextHop: &aftpb.Afts_NextHopKey{Index: 1, NextHop: &aftpb.Afts_NextHop{}}},
	}}, resB, errB)
	for len(resB) > 0 {
		for _, r := range (<-resB).GetResult() {
			if r.GetId() == 100 {
				t.Fatalf("REPLAY clause violated: session B's stream carries a result (%s) for operation id 100, which was sent by session A", r.GetStatus())
			}
		}
	}
}
