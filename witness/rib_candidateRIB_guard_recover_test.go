package rib

import (
	"testing"

	aftpb "github.com/openconfig/gribi/v1/proto/gribi_aft"
	"github.com/openconfig/gribi/v1/proto/gribi_aft/enums"
	spb "github.com/openconfig/gribi/v1/proto/service"
)

// Witness for rib.candidateRIB/guard:recover: an ADD of a next-hop whose encapsulate_header holds
// an undefined enum number. Without the recover in candidateRIB the call panics inside
// protomap.parseField (the server process would die); with it the operation is answered FAILED.
func TestVerifReplay(t *testing.T) {
	defer func() {
		if x := recover(); x != nil {
			t.Fatalf("REPLAY the call panicked: %v", x)
		}
	}()
	r := New("DEFAULT")
	op := &spb.AFTOperation{Id: 1, NetworkInstance: "DEFAULT", Op: spb.AFTOperation_ADD,
		Entry: &spb.AFTOperation_NextHop{NextHop: &aftpb.Afts_NextHopKey{Index: 1, NextHop: &aftpb.Afts_NextHop{
			EncapsulateHeader: enums.OpenconfigAftTypesEncapsulationHeaderType(99),
		}}}}
	oks, fails, err := r.AddEntry("DEFAULT", op)
	t.Logf("oks=%v fails=%v err=%v", oks, fails, err)
	if len(oks) != 0 {
		t.Fatalf("REPLAY clause violated: undefined enum was installed")
	}
}
