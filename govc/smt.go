package main

// SMT term layer: terms are SMT-LIB2 text with a sort. The generator emits a
// linear list of events (declarations, definitions, assumptions, obligations)
// in program order; the query for obligation i is the prefix of events before
// i plus the negated obligation.

import (
	"fmt"
	"go/types"
	"sort"
	"strings"
)

type Sort string

const (
	SInt   Sort = "Int"
	SBool  Sort = "Bool"
	SStr   Sort = "Str"
	SIface Sort = "Iface"
)

type Term struct {
	S    string
	Sort Sort
}

func (t Term) String() string { return t.S }

func T(s string, so Sort) Term { return Term{s, so} }

func IntLit(v string) Term {
	if strings.HasPrefix(v, "-") {
		return Term{"(- " + v[1:] + ")", SInt}
	}
	return Term{v, SInt}
}
func IntN(n int64) Term { return IntLit(fmt.Sprint(n)) }

var (
	TTrue  = Term{"true", SBool}
	TFalse = Term{"false", SBool}
)

func BoolLit(b bool) Term {
	if b {
		return TTrue
	}
	return TFalse
}

func App(so Sort, op string, args ...Term) Term {
	var b strings.Builder
	b.WriteString("(")
	b.WriteString(op)
	for _, a := range args {
		b.WriteString(" ")
		b.WriteString(a.S)
	}
	b.WriteString(")")
	return Term{b.String(), so}
}

func And(ts ...Term) Term {
	var xs []Term
	for _, t := range ts {
		if t.S == "true" {
			continue
		}
		if t.S == "false" {
			return TFalse
		}
		xs = append(xs, t)
	}
	switch len(xs) {
	case 0:
		return TTrue
	case 1:
		return xs[0]
	}
	return App(SBool, "and", xs...)
}

func Or(ts ...Term) Term {
	var xs []Term
	for _, t := range ts {
		if t.S == "false" {
			continue
		}
		if t.S == "true" {
			return TTrue
		}
		xs = append(xs, t)
	}
	switch len(xs) {
	case 0:
		return TFalse
	case 1:
		return xs[0]
	}
	return App(SBool, "or", xs...)
}

func Not(t Term) Term {
	switch t.S {
	case "true":
		return TFalse
	case "false":
		return TTrue
	}
	if strings.HasPrefix(t.S, "(not ") && balanced(t.S[5:len(t.S)-1]) {
		return Term{t.S[5 : len(t.S)-1], SBool}
	}
	return App(SBool, "not", t)
}

func balanced(s string) bool {
	d := 0
	for i, c := range s {
		switch c {
		case '(':
			d++
		case ')':
			d--
			if d < 0 {
				return false
			}
			if d == 0 && i != len(s)-1 {
				return false
			}
		case ' ':
			if d == 0 {
				return false
			}
		}
	}
	return d == 0
}

func Implies(a, b Term) Term {
	if a.S == "true" {
		return b
	}
	if a.S == "false" || b.S == "true" {
		return TTrue
	}
	return App(SBool, "=>", a, b)
}

func Eq(a, b Term) Term {
	if a.S == b.S {
		return TTrue
	}
	return App(SBool, "=", a, b)
}

func Ite(c, a, b Term) Term {
	if c.S == "true" {
		return a
	}
	if c.S == "false" {
		return b
	}
	if a.S == b.S {
		return a
	}
	return App(a.Sort, "ite", c, a, b)
}

func Select(arr, idx Term) Term {
	return App(elemSort(arr.Sort), "select", arr, idx)
}

func Store(arr, idx, v Term) Term {
	return App(arr.Sort, "store", arr, idx, v)
}

func ArraySort(k, v Sort) Sort { return Sort("(Array " + string(k) + " " + string(v) + ")") }

// elemSort returns V for "(Array K V)".
func elemSort(s Sort) Sort {
	k, v := splitArraySort(s)
	_ = k
	return v
}

func keySort(s Sort) Sort {
	k, _ := splitArraySort(s)
	return k
}

func splitArraySort(s Sort) (Sort, Sort) {
	str := string(s)
	if !strings.HasPrefix(str, "(Array ") {
		panic("not an array sort: " + str)
	}
	body := str[len("(Array ") : len(str)-1]
	// split body into two s-expressions
	d := 0
	for i, c := range body {
		switch c {
		case '(':
			d++
		case ')':
			d--
		case ' ':
			if d == 0 {
				return Sort(body[:i]), Sort(body[i+1:])
			}
		}
	}
	panic("bad array sort: " + str)
}

// constArrayHook lets the registry substitute a declared constant when the
// element is not a value literal (cvc5 rejects such constant arrays).
var constArrayHook func(so Sort, v Term) (Term, bool)

func ConstArray(so Sort, v Term) Term {
	if constArrayHook != nil {
		if t, ok := constArrayHook(so, v); ok {
			return t
		}
	}
	return Term{"((as const " + string(so) + ") " + v.S + ")", so}
}

// ---------------------------------------------------------------------------
// Events

type EvKind int

const (
	EvDecl   EvKind = iota // raw declaration text (sorts, datatypes, functions)
	EvConst                // declare-const
	EvDefine               // define-fun name () sort term
	EvAssume
	EvOblig
)

type Event struct {
	Kind       EvKind
	Name       string
	Sort       Sort
	Term       Term
	Raw        string
	Ob         *Obligation
	Structural bool        // typing / allocation / axiom-instance fact: kept in modular contexts
	Scope      *Obligation // non-nil: a fact produced while evaluating a "check at" clause, used for that obligation only
}

type Obligation struct {
	Unit        string // e.g. server.isNewMaster
	Name        string // e.g. ensures#2
	Kind        string // ensures, pre, safety, inv-init, inv-pres, frame, lock, cover
	Clause      string // contract text or description
	Pos         string // source position (informational only; never part of the name)
	Goal        Term   // formula that must be valid given the prefix
	Index       int    // event index
	Cover       bool   // cover check: the goal must be satisfiable (sat expected)
	Info        bool   // informational cover (reachability of a call site)
	CoverPre    *Obligation
	ExitCover   bool   // reachability of one return statement
	Parts       []Term // the goal as independently checkable parts (one per function exit); nil = single goal
	FailPart    int
	failParts   []int
	PartPos     []string
	ModularFrom int    // >0: proved from the entry assumptions and the events from this index on (modular loop)
	Result      string // unsat (discharged) | sat | unknown | timeout | error
	Backend     string
	Ms          int64
	Model       string
	Inputs      []NamedTerm // terms worth evaluating in a model (inputs of the unit)
	Detail      string
}

type NamedTerm struct {
	Name string
	Term Term
	Type string
}

func (o *Obligation) FullName() string { return o.Unit + "/" + o.Name }

// ---------------------------------------------------------------------------
// Sort registry

type SortReg struct {
	decls    []string        // global declarations in order
	declared map[string]bool // names declared
	structs  map[string]*structInfo
	strLits  map[string]string
	strOrder []string
	typeTags map[string]int
	tagTypes []types.Type
	funcs    map[string]bool
	slElem   map[string]Sort
	// emitFact records an instance fact (per-term axiom instance) in the current unit
	emitFact func(string)
	factSeen map[string]bool
}

func (r *SortReg) fact(f string) {
	if strings.Contains(f, "q_") {
		return // mentions a bound variable
	}
	if r.factSeen == nil {
		r.factSeen = map[string]bool{}
	}
	if r.factSeen[f] {
		return
	}
	r.factSeen[f] = true
	if r.emitFact != nil {
		r.emitFact(f)
	}
}

// StrLen returns strlen(t) and records the axiom instances for it.
func (r *SortReg) StrLen(t Term) Term {
	l := App(SInt, "strlen", t)
	r.fact(fmt.Sprintf("(and (>= %s 0) (= (= %s 0) (= %s str_empty)))", l.S, l.S, t.S))
	return l
}

type structInfo struct {
	sort   Sort
	ctor   string
	fields []string // accessor names
	fsorts []Sort
	st     *types.Struct
}

func NewSortReg() *SortReg {
	r := &SortReg{declared: map[string]bool{}, structs: map[string]*structInfo{}, strLits: map[string]string{}, typeTags: map[string]int{}, funcs: map[string]bool{}, slElem: map[string]Sort{}}
	r.decls = append(r.decls,
		"(declare-sort Str 0)",
		"(declare-const str_empty Str)",
		"(declare-fun strlen (Str) Int)",
		"(declare-fun strcat (Str Str) Str)",
		"(declare-datatypes ((Iface 0)) (((mk_iface (itag Int) (ipay Int)))))",
		"(define-fun iface_nil () Iface (mk_iface 0 0))",
		"(declare-fun box_Str (Str) Int)",
		"(declare-fun unbox_Str (Int) Str)",
	)
	r.tagTypes = append(r.tagTypes, nil) // tag 0 = nil interface
	constArrayHook = func(so Sort, v Term) (Term, bool) {
		if !strings.Contains(v.S, "str_empty") && !strings.Contains(v.S, "float_zero") && !strings.Contains(v.S, "zarr_") {
			return Term{}, false
		}
		// element zero is not a value literal: an (unconstrained) declared array stands in
		name := "zarr_" + mangle(string(so))
		r.declareOnce(name, fmt.Sprintf("(declare-const %s %s)", name, so))
		return Term{name, so}, true
	}
	return r
}

func mangle(s string) string {
	var b strings.Builder
	for _, c := range s {
		switch {
		case c >= 'a' && c <= 'z', c >= 'A' && c <= 'Z', c >= '0' && c <= '9', c == '_':
			b.WriteRune(c)
		case c == '.':
			b.WriteString("_")
		case c == '*':
			b.WriteString("P")
		case c == '[':
			b.WriteString("L")
		case c == ']':
			b.WriteString("J")
		case c == '/':
			b.WriteString("_")
		default:
			b.WriteString("_")
		}
	}
	return b.String()
}

// shortTypeName gives a compact, unique-enough name for a type.
func shortTypeName(t types.Type) string {
	s := types.TypeString(t, func(p *types.Package) string { return p.Name() })
	return mangle(s)
}

func isOpaqueStruct(t types.Type) bool {
	if n, ok := types.Unalias(t).(*types.Named); ok {
		if p := n.Obj().Pkg(); p != nil {
			switch p.Path() {
			case "sync", "sync/atomic", "go.uber.org/atomic", "google.golang.org/protobuf/internal/impl", "google.golang.org/protobuf/runtime/protoimpl", "google.golang.org/protobuf/internal/pragma":
				return true
			}
		}
	}
	return false
}

type unsupported struct{ msg string }

func unsup(format string, a ...any) { panic(unsupported{fmt.Sprintf(format, a...)}) }

func (r *SortReg) SortOf(t types.Type) Sort {
	t = types.Unalias(t)
	if isOpaqueStruct(t) {
		return SInt
	}
	switch u := t.Underlying().(type) {
	case *types.Basic:
		switch {
		case u.Info()&types.IsBoolean != 0:
			return SBool
		case u.Info()&types.IsInteger != 0:
			return SInt
		case u.Info()&types.IsString != 0:
			return SStr
		case u.Kind() == types.UnsafePointer, u.Kind() == types.UntypedNil:
			return SInt
		case u.Info()&types.IsFloat != 0:
			// floats are not modelled: an opaque sort with no operations
			r.declareOnce("Float", "(declare-sort Float 0)")
			r.declareOnce("float_zero", "(declare-const float_zero Float)")
			return "Float"
		}
		unsup("basic type %s", t)
	case *types.Pointer, *types.Map, *types.Chan, *types.Signature:
		return SInt
	case *types.Interface:
		return SIface
	case *types.Slice:
		es := r.SortOf(u.Elem())
		return r.SliceSort(es)
	case *types.Array:
		return ArraySort(SInt, r.SortOf(u.Elem()))
	case *types.Struct:
		return r.structInfoOf(t).sort
	case *types.Tuple:
		unsup("tuple sort")
	}
	unsup("type %s", t)
	return ""
}

func (r *SortReg) declareOnce(name, decl string) {
	if !r.declared[name] {
		r.declared[name] = true
		r.decls = append(r.decls, decl)
	}
}

func (r *SortReg) structInfoOf(t types.Type) *structInfo {
	t = types.Unalias(t)
	st := t.Underlying().(*types.Struct)
	name := "S_" + shortTypeName(t)
	if si, ok := r.structs[name]; ok {
		return si
	}
	si := &structInfo{sort: Sort(name), ctor: "mk_" + name, st: st}
	r.structs[name] = si
	var fdecl []string
	for i := 0; i < st.NumFields(); i++ {
		f := st.Field(i)
		fs := r.SortOf(f.Type())
		acc := fmt.Sprintf("%s_%s", name, mangle(f.Name()))
		si.fields = append(si.fields, acc)
		si.fsorts = append(si.fsorts, fs)
		fdecl = append(fdecl, fmt.Sprintf("(%s %s)", acc, fs))
	}
	if len(fdecl) == 0 {
		r.decls = append(r.decls, fmt.Sprintf("(declare-datatypes ((%s 0)) (((%s))))", name, si.ctor))
	} else {
		r.decls = append(r.decls, fmt.Sprintf("(declare-datatypes ((%s 0)) (((%s %s))))", name, si.ctor, strings.Join(fdecl, " ")))
	}
	return si
}

func (r *SortReg) Zero(t types.Type) Term {
	t = types.Unalias(t)
	so := r.SortOf(t)
	if isOpaqueStruct(t) {
		return IntN(0)
	}
	switch u := t.Underlying().(type) {
	case *types.Struct:
		si := r.structInfoOf(t)
		if len(si.fields) == 0 {
			return Term{si.ctor, so}
		}
		var args []Term
		for i := 0; i < u.NumFields(); i++ {
			args = append(args, r.Zero(u.Field(i).Type()))
		}
		return App(so, si.ctor, args...)
	case *types.Array:
		return ConstArray(so, r.Zero(u.Elem()))
	case *types.Slice:
		es := r.SortOf(u.Elem())
		return App(so, "mk_"+string(so), ConstArray(ArraySort(SInt, es), r.Zero(u.Elem())), IntN(0))
	}
	return r.ZeroOfSort(so)
}

func (r *SortReg) ZeroOfSort(so Sort) Term {
	switch so {
	case SInt:
		return IntN(0)
	case SBool:
		return TFalse
	case SStr:
		return Term{"str_empty", SStr}
	case SIface:
		return Term{"(mk_iface 0 0)", SIface}
	case "Float":
		return Term{"float_zero", "Float"}
	}
	if strings.HasPrefix(string(so), "(Array ") {
		_, v := splitArraySort(so)
		return ConstArray(so, r.ZeroOfSort(v))
	}
	if es, ok := r.slElem[string(so)]; ok {
		return MkSlice(so, ConstArray(ArraySort(SInt, es), r.ZeroOfSort(es)), IntN(0))
	}
	for _, si := range r.structs {
		if si.sort == so {
			if len(si.fields) == 0 {
				return Term{si.ctor, so}
			}
			var args []Term
			for _, fs := range si.fsorts {
				args = append(args, r.ZeroOfSort(fs))
			}
			return App(so, si.ctor, args...)
		}
	}
	unsup("zero of sort %s", so)
	return Term{}
}

func firstSexp(s string) string {
	d := 0
	for i, c := range s {
		switch c {
		case '(':
			d++
		case ')':
			d--
			if d == 0 {
				return s[:i+1]
			}
		case ' ':
			if d == 0 {
				return s[:i]
			}
		}
	}
	return s
}

// StrLit returns the constant for a Go string literal.
func (r *SortReg) StrLit(v string) Term {
	if v == "" {
		return Term{"str_empty", SStr}
	}
	if n, ok := r.strLits[v]; ok {
		return Term{n, SStr}
	}
	n := fmt.Sprintf("strlit_%d", len(r.strLits)+1)
	r.strLits[v] = n
	r.strOrder = append(r.strOrder, v)
	return Term{n, SStr}
}

// StrDecls returns declarations for string literals (all distinct, lengths known).
func (r *SortReg) StrDecls() []string {
	var out []string
	names := []string{"str_empty"}
	for _, v := range r.strOrder {
		n := r.strLits[v]
		out = append(out, fmt.Sprintf("(declare-const %s Str) ; %q", n, trunc(v, 60)))
		out = append(out, fmt.Sprintf("(assert (= (strlen %s) %d))", n, len(v)))
		names = append(names, n)
	}
	out = append(out, "(assert (= (strlen str_empty) 0))")
	if len(names) > 1 {
		out = append(out, "(assert (distinct "+strings.Join(names, " ")+"))")
	}
	return out
}

func trunc(s string, n int) string {
	s = strings.ReplaceAll(s, "\n", " ")
	if len(s) > n {
		return s[:n] + "..."
	}
	return s
}

// TypeTag returns the integer tag for a dynamic type held in an interface.
func (r *SortReg) TypeTag(t types.Type) int {
	t = types.Unalias(t)
	k := types.TypeString(t, nil)
	if n, ok := r.typeTags[k]; ok {
		return n
	}
	n := len(r.tagTypes)
	r.typeTags[k] = n
	r.tagTypes = append(r.tagTypes, t)
	return n
}

// ToPayload converts a value of Go type t to the Int payload of an interface.
func (r *SortReg) ToPayload(v Term, t types.Type) Term {
	switch v.Sort {
	case SInt:
		return v
	case SBool:
		return Ite(v, IntN(1), IntN(0))
	case SStr:
		b := App(SInt, "box_Str", v)
		r.fact(fmt.Sprintf("(= (unbox_Str %s) %s)", b.S, v.S))
		return b
	}
	// struct values and others: boxed through an injective uninterpreted function
	name := "box_" + mangle(string(v.Sort))
	un := "un" + name
	if !r.declared[name] {
		r.declared[name] = true
		r.decls = append(r.decls, fmt.Sprintf("(declare-fun %s (%s) Int)", name, v.Sort))
		r.decls = append(r.decls, fmt.Sprintf("(declare-fun %s (Int) %s)", un, v.Sort))
	}
	b := App(SInt, name, v)
	r.fact(fmt.Sprintf("(= (%s %s) %s)", un, b.S, v.S))
	return b
}

func (r *SortReg) FromPayload(p Term, t types.Type) Term {
	so := r.SortOf(t)
	switch so {
	case SInt:
		return p
	case SBool:
		return Not(Eq(p, IntN(0)))
	case SStr:
		return App(SStr, "unbox_Str", p)
	}
	name := "box_" + mangle(string(so))
	un := "un" + name
	if !r.declared[name] {
		r.declared[name] = true
		r.decls = append(r.decls, fmt.Sprintf("(declare-fun %s (%s) Int)", name, so))
		r.decls = append(r.decls, fmt.Sprintf("(declare-fun %s (Int) %s)", un, so))
	}
	// surjectivity instance: a payload that was produced by boxing unboxes to a value that boxes back
	u := App(so, un, p)
	return u
}

func (r *SortReg) MkIface(t types.Type, v Term) Term {
	tag := r.TypeTag(t)
	return App(SIface, "mk_iface", IntN(int64(tag)), r.ToPayload(v, t))
}

func (r *SortReg) DeclFun(name string, args []Sort, res Sort) {
	if r.funcs[name] {
		return
	}
	r.funcs[name] = true
	var as []string
	for _, a := range args {
		as = append(as, string(a))
	}
	r.decls = append(r.decls, fmt.Sprintf("(declare-fun %s (%s) %s)", name, strings.Join(as, " "), res))
}

// CardFun returns the name of the cardinality function for a domain array sort.
func (r *SortReg) CardFun(dom Sort) string {
	name := "card_" + mangle(string(dom))
	if !r.funcs[name] {
		r.funcs[name] = true
		k := keySort(dom)
		r.decls = append(r.decls, fmt.Sprintf("(declare-fun %s (%s) Int)", name, dom))
		r.decls = append(r.decls, fmt.Sprintf("(assert (forall ((d %s) (k %s)) (! (= (%s (store d k true)) (ite (select d k) (%s d) (+ (%s d) 1))) :pattern ((%s (store d k true))))))", dom, k, name, name, name, name))
		r.decls = append(r.decls, fmt.Sprintf("(assert (forall ((d %s) (k %s)) (! (= (%s (store d k false)) (ite (select d k) (- (%s d) 1) (%s d))) :pattern ((%s (store d k false))))))", dom, k, name, name, name, name))
		r.decls = append(r.decls, fmt.Sprintf("(assert (= (%s ((as const %s) false)) 0))", name, dom))
	}
	return name
}

// Card returns card(d) and records the axiom instances for this term.
func (r *SortReg) Card(d Term) Term {
	name := r.CardFun(d.Sort)
	c := App(SInt, name, d)
	// address-space bound: no map holds 2^56 or more entries
	r.fact(fmt.Sprintf("(and (>= %s 0) (< %s 72057594037927936) (= (= %s 0) (= %s ((as const %s) false))))", c.S, c.S, c.S, d.S, d.Sort))
	return c
}

func sortedKeys[V any](m map[string]V) []string {
	ks := make([]string, 0, len(m))
	for k := range m {
		ks = append(ks, k)
	}
	sort.Strings(ks)
	return ks
}

// SliceSort returns (declaring if needed) the slice datatype over elem sort es.
func (r *SortReg) SliceSort(es Sort) Sort {
	name := "Sl_" + mangle(string(es))
	if !r.declared[name] {
		r.declared[name] = true
		r.slElem[name] = es
		r.decls = append(r.decls, fmt.Sprintf("(declare-datatypes ((%s 0)) (((mk_%s (data_%s (Array Int %s)) (len_%s Int)))))", name, name, name, es, name))
	}
	return Sort(name)
}

func (r *SortReg) SliceElem(so Sort) Sort {
	es, ok := r.slElem[string(so)]
	if !ok {
		panic("not a slice sort: " + string(so))
	}
	return es
}

func (r *SortReg) SlData(sl Term) Term {
	return App(ArraySort(SInt, r.SliceElem(sl.Sort)), "data_"+string(sl.Sort), sl)
}
func SlLen(sl Term) Term { return App(SInt, "len_"+string(sl.Sort), sl) }
func MkSlice(so Sort, data, n Term) Term {
	return App(so, "mk_"+string(so), data, n)
}
