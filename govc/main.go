package main

import (
	"encoding/json"
	"flag"
	"fmt"
	"go/token"
	"os"
	"os/signal"
	"path/filepath"
	"sort"
	"strings"
	"sync"
	"syscall"
	"time"

	"golang.org/x/tools/go/packages"
	"golang.org/x/tools/go/ssa"
	"golang.org/x/tools/go/ssa/ssautil"
)

const modPath = "github.com/openconfig/gribigo"

var contractPkgs = []string{"server", "rib", "client", "chk", "fluent", "rib/reconciler"}

func loadGen(repo, specDir string) (*Gen, error) {
	fset := token.NewFileSet()
	os.Setenv("PATH", "/opt/veriftools/go1.26.8/bin:"+os.Getenv("PATH"))
	cfg := &packages.Config{Mode: packages.LoadAllSyntax, Dir: repo, BuildFlags: []string{"-tags=verif"}, Fset: fset,
		Env: append(os.Environ(), "PATH=/opt/veriftools/go1.26.8/bin:"+os.Getenv("PATH"), "GOFLAGS=-mod=mod", "GOPROXY=off", "GOSUMDB=off", "GOTOOLCHAIN=local")}
	var pats []string
	for _, p := range contractPkgs {
		pats = append(pats, "./"+p)
	}
	pkgs, err := packages.Load(cfg, pats...)
	if err != nil {
		return nil, err
	}
	var errs []string
	packages.Visit(pkgs, nil, func(p *packages.Package) {
		for _, e := range p.Errors {
			errs = append(errs, e.Error())
		}
	})
	if len(errs) > 0 {
		if len(errs) > 10 {
			errs = errs[:10]
		}
		return nil, fmt.Errorf("package load errors (the tree must compile):\n%s", strings.Join(errs, "\n"))
	}
	prog, _ := ssautil.AllPackages(pkgs, ssa.NaiveForm|ssa.GlobalDebug|ssa.InstantiateGenerics)
	prog.Build()
	g := &Gen{repo: repo, prog: prog, pkgs: map[string]*packages.Package{}, ssaPkgs: map[string]*ssa.Package{}, specs: NewSpecs(), reg: NewSortReg(), fset: fset, srcLine: map[string][]string{}, genFile: map[string]bool{}}
	packages.Visit(pkgs, nil, func(p *packages.Package) {
		g.pkgs[p.PkgPath] = p
	})
	for _, sp := range prog.AllPackages() {
		g.ssaPkgs[sp.Pkg.Path()] = sp
	}
	// contracts in the repository
	for _, p := range contractPkgs {
		f := filepath.Join(repo, p, "verif_contracts.go")
		if _, err := os.Stat(f); err == nil {
			g.specs.LoadContractFile(f, modPath+"/"+p, true)
		}
	}
	// spec files
	specs, _ := filepath.Glob(filepath.Join(specDir, "*.gvc"))
	sort.Strings(specs)
	for _, f := range specs {
		g.specs.LoadContractFile(f, "", false)
	}
	if len(g.specs.Errors) > 0 {
		return nil, fmt.Errorf("contract errors:\n%s", strings.Join(g.specs.Errors, "\n"))
	}
	return g, nil
}

// verifyUnits generates and solves the given contracts in parallel. Each unit
// gets its own sort registry so that queries stay small.
func verifyUnits(g *Gen, cts []*Contract, cfg SolverCfg) []*UnitResult {
	var results []*UnitResult
	// generation is sequential (shared registries are not thread-safe); solving is parallel
	var wg sync.WaitGroup
	sem := make(chan struct{}, 16)
	type job struct {
		ct   *Contract
		inst *ssa.Function
	}
	var jobs []job
	for _, ct := range cts {
		fn := g.findFunc(ct.Pkg, ct.Func)
		if fn != nil && fn.TypeParams().Len() > 0 && !ct.Trusted {
			var insts []*ssa.Function
			for f := range ssautil.AllFunctions(g.prog) {
				if f.Origin() == fn && len(f.TypeArgs()) > 0 && f.Blocks != nil {
					insts = append(insts, f)
				}
			}
			sort.Slice(insts, func(i, j int) bool { return insts[i].String() < insts[j].String() })
			for _, f := range insts {
				jobs = append(jobs, job{ct, f})
			}
			if len(insts) > 0 {
				continue
			}
		}
		jobs = append(jobs, job{ct, nil})
	}
	for _, jb := range jobs {
		g.reg = NewSortReg()
		r := g.VerifyUnit(jb.ct, jb.inst)
		r.ct = jb.ct
		// freeze the registry used by this unit
		r.reg = g.reg
		results = append(results, r)
		wg.Add(1)
		go func(r *UnitResult) {
			defer wg.Done()
			sem <- struct{}{}
			defer func() { <-sem }()
			SolveUnit(r, cfg)
		}(r)
	}
	wg.Wait()
	return results
}

// exitCovers adds one reachability check per return statement (thorough tier and development runs).
var exitCovers bool

func main() {
	repo := flag.String("repo", "/repo", "repository root")
	specDir := flag.String("spec", "/verif/spec", "spec directory")
	units := flag.String("units", "", "comma-separated unit names (pkg.Func, short form) for development")
	prop := flag.String("prop", "", "property id")
	tier := flag.String("tier", "quick", "quick|thorough")
	work := flag.String("work", "", "scratch directory for SMT files")
	verbose := flag.Bool("v", false, "verbose")
	dumpSSA := flag.String("ssa", "", "dump SSA of unit")
	out := flag.String("out", "/verif", "verif root (evidence, replay)")
	replayFile := flag.String("replay", "", "replay file written by an earlier run: re-check that obligation on the current tree")
	flag.Parse()
	if *replayFile != "" {
		os.Exit(replayMain(*replayFile, *repo, *specDir, *out))
	}
	t0 := time.Now()
	g, err := loadGen(*repo, *specDir)
	if err != nil {
		if *prop != "" {
			reportLoadFailure(*prop, *tier, *out, err, time.Since(t0).Seconds())
			os.Exit(1)
		}
		fmt.Fprintln(os.Stderr, err)
		os.Exit(2)
	}
	if *verbose {
		fmt.Fprintf(os.Stderr, "loaded in %.1fs; %d contracts\n", time.Since(t0).Seconds(), len(g.specs.Contracts))
	}
	cleanup := func() {}
	if *work == "" {
		// scratch directory for the SMT files of this run: removed on every way out (os.Exit does not
		// run deferred calls, so the exits below call cleanup themselves)
		d, _ := os.MkdirTemp("", "govc")
		*work = d
		cleanup = func() { os.RemoveAll(d) }
		defer cleanup()
		sig := make(chan os.Signal, 1)
		signal.Notify(sig, syscall.SIGINT, syscall.SIGTERM, syscall.SIGHUP)
		go func() {
			<-sig
			cleanup()
			os.Exit(130)
		}()
	}
	cfg := SolverCfg{QuickMs: 5000, FallbackMs: 20000, WorkDir: *work}
	if *tier == "thorough" {
		cfg = SolverCfg{QuickMs: 20000, FallbackMs: 60000, WorkDir: *work, Cross: true}
	}
	exitCovers = *tier == "thorough" || os.Getenv("GOVC_EXITCOVER") != "" || (*verbose && *units != "")
	if *dumpSSA != "" {
		for _, ct := range g.specs.Contracts {
			if shortUnit(ct.Key()) == *dumpSSA {
				fn := g.findFunc(ct.Pkg, ct.Func)
				fn.WriteTo(os.Stdout)
			}
		}
		return
	}
	if *prop != "" {
		rc := runProperty(g, *prop, *tier, *out, cfg, t0)
		cleanup()
		os.Exit(rc)
	}
	var cts []*Contract
	want := map[string]bool{}
	for _, n := range strings.Split(*units, ",") {
		if n != "" {
			want[n] = true
		}
	}
	for _, k := range sortedKeys(g.specs.Contracts) {
		ct := g.specs.Contracts[k]
		if ct.Extern {
			continue
		}
		if len(want) == 0 || want[shortUnit(k)] {
			cts = append(cts, ct)
		}
	}
	rs := verifyUnits(g, cts, cfg)
	bad := 0
	for _, r := range rs {
		printUnit(r, *verbose)
		for _, ob := range r.Obs {
			if !obOK(ob) {
				bad++
			}
		}
		if r.Unsupported != "" {
			bad++
		}
	}
	fmt.Printf("total %.1fs, %d problems\n", time.Since(t0).Seconds(), bad)
}

func obOK(ob *Obligation) bool {
	if ob.Cover {
		if ob.Info || ob.ExitCover || (ob.CoverPre != nil && ob.CoverPre.Result != "sat") {
			return true
		}
		return ob.Result == "sat" || ob.Result == "unknown" || ob.Result == "timeout"
	}
	return ob.Result == "unsat"
}

func printUnit(r *UnitResult, verbose bool) {
	if r.Trusted {
		fmt.Printf("%-50s TRUSTED (contract assumed)\n", r.Unit)
		for _, ob := range r.Obs {
			if ob.Result != "unsat" || verbose {
				fmt.Printf("    %-45s %-8s %-28s %s\n", ob.Name, ob.Result, ob.Backend, trunc(ob.Clause, 120))
			}
		}
		return
	}
	if r.Unsupported != "" {
		fmt.Printf("%-50s UNSUPPORTED: %s\n", r.Unit, r.Unsupported)
		return
	}
	ok := 0
	for _, ob := range r.Obs {
		if obOK(ob) {
			ok++
		}
	}
	fmt.Printf("%-50s %d/%d\n", r.Unit, ok, len(r.Obs))
	for _, ob := range r.Obs {
		if !obOK(ob) || verbose {
			fmt.Printf("    %-45s %-8s %-28s %5dms %s  [%s] %s\n", ob.Name, ob.Result, ob.Backend, ob.Ms, ob.Pos, trunc(ob.Clause, 90), trunc(ob.Detail, 200))
		}
	}
	if verbose {
		for k, v := range r.Assumed {
			fmt.Printf("    assumed: %s: %s\n", k, v)
		}
		for _, n := range r.Notes {
			fmt.Printf("    note: %s\n", n)
		}
	}
}

// replayMain re-checks the obligation named in a replay file against the current tree: it
// regenerates the unit's verification conditions from the working tree, solves that obligation
// again and, if it still fails with a model, replays the counterexample on the real code.
// Exit 1 (with a VIOLATION line) if the obligation still fails, 0 if it is discharged now.
func replayMain(file, repo, specDir, out string) int {
	data, err := os.ReadFile(file)
	if err != nil {
		fmt.Fprintln(os.Stderr, err)
		return 2
	}
	var rep struct {
		Property   string `json:"property"`
		Obligation string `json:"obligation"`
	}
	if json.Unmarshal(data, &rep) != nil || rep.Obligation == "" {
		fmt.Fprintln(os.Stderr, "not a replay file:", file)
		return 2
	}
	unit := rep.Obligation
	unit = unit[:unitSep(unit)]
	g, err := loadGen(repo, specDir)
	if err != nil {
		fmt.Printf("VIOLATION property=%s replay=%s no-failing-input-found\n  the tree does not load: %v\n", rep.Property, file, err)
		return 1
	}
	var cts []*Contract
	for _, k := range sortedKeys(g.specs.Contracts) {
		if ct := g.specs.Contracts[k]; !ct.Extern && shortUnit(k) == unit {
			cts = append(cts, ct)
		}
	}
	if len(cts) == 0 {
		fmt.Printf("VIOLATION property=%s replay=%s no-failing-input-found\n  unit %s is no longer under contract\n", rep.Property, file, unit)
		return 1
	}
	work, _ := os.MkdirTemp("", "govc")
	defer os.RemoveAll(work)
	cfg := SolverCfg{QuickMs: 5000, FallbackMs: 20000, WorkDir: work}
	rs := verifyUnits(g, cts, cfg)
	for _, r := range rs {
		if r.Unsupported != "" {
			fmt.Printf("VIOLATION property=%s replay=%s no-failing-input-found\n  unit undecided: %s\n", rep.Property, file, r.Unsupported)
			return 1
		}
		for _, ob := range r.Obs {
			if baselineName(ob.FullName()) != baselineName(rep.Obligation) || ob.Cover {
				continue
			}
			if ob.Result == "unsat" {
				fmt.Printf("obligation %s is discharged on the current tree (%s)\n", rep.Obligation, ob.Backend)
				return 0
			}
			suffix := " no-failing-input-found"
			if ob.Model != "" {
				rr := Replay(g, r, ob, cfg, filepath.Dir(file))
				fmt.Printf("  replay: %s %s\n%s\n", rr.Status, rr.Reason, trunc(rr.Output, 1500))
				if rr.Status == "confirmed" {
					suffix = ""
				}
			}
			fmt.Printf("VIOLATION property=%s replay=%s%s\n  obligation %s: %s [%s]\n", rep.Property, file, suffix, ob.FullName(), ob.Result, trunc(ob.Clause, 160))
			return 1
		}
	}
	fmt.Printf("VIOLATION property=%s replay=%s no-failing-input-found\n  obligation %s is no longer generated\n", rep.Property, file, rep.Obligation)
	return 1
}
