package main

import (
	"fmt"
	"go/constant"
	"go/token"
	"go/types"
	"os"

	"golang.org/x/tools/go/ssa"
)

func readFile(f string) ([]byte, error) { return os.ReadFile(f) }

// val returns the term of an SSA value in frame fr.
func (u *UnitGen) val(fr *Frame, st *State, v ssa.Value) Term {
	if t, ok := fr.vals[v]; ok {
		return t
	}
	reg := u.g.reg
	switch c := v.(type) {
	case *ssa.Const:
		return u.constTerm(c)
	case *ssa.Function:
		// a function used as a value: distinct non-nil identity per function
		name := "fn_" + mangle(c.String())
		reg.declareOnce(name, fmt.Sprintf("(declare-const %s Int)", name))
		reg.declareOnce(name+"_pos", fmt.Sprintf("(assert (> %s 0))", name))
		fr.closures[v] = &Closure{fn: c}
		return Term{name, SInt}
	case *ssa.Global:
		unsup("address of global %s used as a value", c.Name())
	case *ssa.FreeVar:
		if t, ok := fr.freeT[c]; ok {
			return t
		}
		unsup("free variable %s used as value", c.Name())
	case *ssa.Builtin:
		unsup("builtin %s as value", c.Name())
	}
	if a, ok := fr.addrs[v]; ok {
		// an address escaping as a value: only whole heap objects have a term
		if a.local == "" && a.global == "" && a.slice == nil && len(a.path) == 0 {
			return a.ref
		}
		unsup("address of %s escapes as a value in %s", describeAddr(a), fr.fn.Name())
	}
	unsup("value %s (%T) has no term in %s", v.Name(), v, fr.fn.Name())
	return Term{}
}

func describeAddr(a *Addr) string {
	switch {
	case a.local != "":
		return "local " + a.local
	case a.global != "":
		return "global " + a.global
	case a.slice != nil:
		return "slice element"
	}
	return fmt.Sprintf("field path of %s", a.objT)
}

func (u *UnitGen) constTerm(c *ssa.Const) Term {
	reg := u.g.reg
	t := c.Type()
	if c.Value == nil {
		return reg.Zero(t)
	}
	switch c.Value.Kind() {
	case constant.Bool:
		return BoolLit(constant.BoolVal(c.Value))
	case constant.Int:
		return IntLit(c.Value.ExactString())
	case constant.String:
		return reg.StrLit(constant.StringVal(c.Value))
	case constant.Float:
		if b, ok := t.Underlying().(*types.Basic); ok && b.Info()&types.IsInteger != 0 {
			return IntLit(c.Value.ExactString())
		}
		reg.SortOf(t)
		return Term{"float_zero", "Float"}
	}
	unsup("constant %s", c)
	return Term{}
}

// addrOf resolves an SSA pointer value to an address.
func (u *UnitGen) addrOf(fr *Frame, st *State, v ssa.Value) *Addr {
	if a, ok := fr.addrs[v]; ok {
		return a
	}
	if g, ok := v.(*ssa.Global); ok {
		key := "g:" + g.Pkg.Pkg.Path() + "." + g.Name()
		pt := g.Type().(*types.Pointer).Elem()
		if _, ok := u.varSort[key]; !ok {
			u.varSort[key] = u.g.reg.SortOf(pt)
		}
		return &Addr{global: key, valT: pt}
	}
	if fv, ok := v.(*ssa.FreeVar); ok {
		if a, ok := fr.freeA[fv]; ok {
			return a
		}
	}
	p := u.val(fr, st, v)
	pt, ok := v.Type().Underlying().(*types.Pointer)
	if !ok {
		unsup("addrOf non-pointer %s", v.Type())
	}
	return &Addr{ref: p, objT: pt.Elem(), valT: pt.Elem()}
}

// nilCheck emits the safety obligation that a heap base is not nil.
func (u *UnitGen) nilCheck(st *State, a *Addr, what string) {
	if a.local != "" || a.global != "" || a.slice != nil {
		return
	}
	if u.nonNil[a.ref.S] {
		return
	}
	u.oblige(st, "safety", u.obName("safety:nil"), "nil dereference: "+what, Not(Eq(a.ref, IntN(0))))
}

func (u *UnitGen) setVal(fr *Frame, v ssa.Value, t Term) {
	if len(t.S) > 60 {
		t = u.define(fmt.Sprintf("f%d_%s", fr.id, v.Name()), t)
	}
	fr.vals[v] = t
}

func (u *UnitGen) execInstr(fr *Frame, st *State, instr ssa.Instruction) {
	reg := u.g.reg
	switch in := instr.(type) {
	case *ssa.DebugRef:
		return
	case *ssa.Alloc:
		et := in.Type().(*types.Pointer).Elem()
		if !in.Heap {
			k := fr.localKey(in)
			u.varSort[k] = reg.SortOf(et)
			u.localTypes[k] = et
			u.set(st, k, reg.Zero(et))
			fr.addrs[in] = &Addr{local: k, valT: et}
			if in.Comment != "" {
				fr.localNames[in.Comment] = in
			}
			return
		}
		r := u.alloc(st, fmt.Sprintf("f%d_%s_new", fr.id, in.Name()))
		u.nonNil[r.S] = true
		u.fresh0[r.S] = true
		fr.vals[in] = r
		if in.Comment != "" {
			fr.localNames[in.Comment] = in
		}
		u.store(st, &Addr{ref: r, objT: et, valT: et}, reg.Zero(et))
	case *ssa.Store:
		a := u.addrOf(fr, st, in.Addr)
		if len(a.path) == 0 {
			u.nilCheck(st, a, "store")
		}
		u.lockCheck(fr, st, a, true, nil)
		v := u.val(fr, st, in.Val)
		if cl, ok := fr.closures[in.Val]; ok {
			u.closureAt[addrKey(a)] = cl
		}
		u.store(st, a, v)
	case *ssa.UnOp:
		u.execUnOp(fr, st, in)
	case *ssa.BinOp:
		u.setVal(fr, in, u.binop(fr, st, in.Op, in.X, in.Y, in.Type()))
	case *ssa.FieldAddr:
		base := u.addrOf(fr, st, in.X)
		u.nilCheck(st, base, "field address")
		stT := in.X.Type().Underlying().(*types.Pointer).Elem()
		ft := stT.Underlying().(*types.Struct).Field(in.Field).Type()
		fr.addrs[in] = base.extend(pathElem{field: in.Field, st: stT}, ft)
	case *ssa.Field:
		x := u.val(fr, st, in.X)
		stT := in.X.Type()
		if isOpaqueStruct(stT) {
			u.setVal(fr, in, reg.Zero(in.Type()))
			return
		}
		si := reg.structInfoOf(stT)
		u.setVal(fr, in, App(si.fsorts[in.Field], si.fields[in.Field], x))
	case *ssa.IndexAddr:
		idx := u.val(fr, st, in.Index)
		switch xt := in.X.Type().Underlying().(type) {
		case *types.Pointer: // pointer to array
			base := u.addrOf(fr, st, in.X)
			u.nilCheck(st, base, "index address")
			at := xt.Elem().Underlying().(*types.Array)
			u.oblige(st, "safety", u.obName("safety:index"), "array index in range", And(App(SBool, "<=", IntN(0), idx), App(SBool, "<", idx, IntN(at.Len()))))
			fr.addrs[in] = base.extend(pathElem{idx: &idx, elemT: at.Elem()}, at.Elem())
		case *types.Slice:
			sl := u.val(fr, st, in.X)
			u.oblige(st, "safety", u.obName("safety:index"), "slice index in range", And(App(SBool, "<=", IntN(0), idx), App(SBool, "<", idx, SlLen(sl))))
			fr.addrs[in] = &Addr{slice: &sl, path: []pathElem{{idx: &idx, elemT: xt.Elem()}}, valT: xt.Elem()}
		default:
			unsup("IndexAddr on %s", in.X.Type())
		}
	case *ssa.Index:
		x := u.val(fr, st, in.X)
		idx := u.val(fr, st, in.Index)
		switch in.X.Type().Underlying().(type) {
		case *types.Array:
			u.setVal(fr, in, Select(x, idx))
		default:
			unsup("Index on %s", in.X.Type())
		}
	case *ssa.Lookup:
		u.execLookup(fr, st, in)
	case *ssa.MapUpdate:
		m := u.val(fr, st, in.Map)
		k := u.val(fr, st, in.Key)
		v := u.val(fr, st, in.Value)
		u.oblige(st, "safety", u.obName("safety:nilmap"), "assignment to entry in nil map", Not(Eq(m, IntN(0))))
		u.lockCheckMapWrite(fr, st, in.Map)
		u.mapStore(st, in.Map.Type(), m, k, v)
	case *ssa.MakeMap:
		r := u.alloc(st, fmt.Sprintf("f%d_%s_map", fr.id, in.Name()))
		u.nonNil[r.S] = true
		dk, _, ds, _ := u.mapKeys(in.Type())
		u.markStore(dk, r)
		u.setDef(st, dk, Store(u.get(st, dk, ds), r, ConstArray(elemSort(ds), TFalse)))
		fr.vals[in] = r
	case *ssa.MakeChan:
		r := u.alloc(st, fmt.Sprintf("f%d_%s_chan", fr.id, in.Name()))
		u.nonNil[r.S] = true
		_, lk, _, ls := u.sentKeys(in.Type())
		u.markStore(lk, r)
		u.setDef(st, lk, Store(u.get(st, lk, ls), r, IntN(0)))
		fr.vals[in] = r
	case *ssa.MakeSlice:
		so := reg.SortOf(in.Type())
		n := u.val(fr, st, in.Len)
		es := reg.SliceElem(so)
		fr.vals[in] = MkSlice(so, ConstArray(ArraySort(SInt, es), reg.ZeroOfSort(es)), n)
	case *ssa.MakeClosure:
		r := u.alloc(st, fmt.Sprintf("f%d_%s_closure", fr.id, in.Name()))
		u.nonNil[r.S] = true
		cl := &Closure{fn: in.Fn.(*ssa.Function), bindings: in.Bindings}
		for _, b := range in.Bindings {
			if a, ok := fr.addrs[b]; ok {
				cl.bindA = append(cl.bindA, a)
				cl.bindT = append(cl.bindT, Term{})
			} else {
				cl.bindA = append(cl.bindA, nil)
				cl.bindT = append(cl.bindT, u.val(fr, st, b))
			}
		}
		fr.closures[in] = cl
		fr.vals[in] = r
		u.closureFacts(fr, st, in, r, cl)
	case *ssa.MakeInterface:
		x := u.val(fr, st, in.X)
		u.setVal(fr, in, reg.MkIface(in.X.Type(), x))
	case *ssa.ChangeInterface:
		fr.vals[in] = u.val(fr, st, in.X)
	case *ssa.ChangeType:
		fr.vals[in] = u.val(fr, st, in.X)
		if cl, ok := fr.closures[in.X]; ok {
			fr.closures[in] = cl
		}
	case *ssa.Convert:
		u.execConvert(fr, st, in)
	case *ssa.TypeAssert:
		u.execTypeAssert(fr, st, in)
	case *ssa.Extract:
		tup, ok := fr.tuples[in.Tuple]
		if !ok {
			unsup("extract from unknown tuple %s", in.Tuple.Name())
		}
		fr.vals[in] = tup[in.Index]
		if call, ok := in.Tuple.(*ssa.Call); ok {
			_ = call
		}
	case *ssa.Slice:
		u.execSlice(fr, st, in)
	case *ssa.Phi:
		// only from && and ||: select by predecessor reachability
		b := in.Block()
		var t Term
		for i := len(in.Edges) - 1; i >= 0; i-- {
			ev := u.val(fr, st, in.Edges[i])
			if i == len(in.Edges)-1 {
				t = ev
				continue
			}
			g, ok := u.edgeGuard[edgeKey{fr.id, b.Preds[i], b}]
			if !ok {
				unsup("phi edge guard missing")
			}
			t = Ite(g, ev, t)
		}
		u.setVal(fr, in, t)
	case *ssa.Call:
		rs := u.execCall(fr, st, in, &in.Call)
		sig := in.Call.Signature()
		switch sig.Results().Len() {
		case 0:
		case 1:
			fr.vals[in] = rs[0]
		default:
			fr.tuples[in] = rs
		}
	case *ssa.Defer:
		u.execDefer(fr, st, in)
	case *ssa.RunDefers:
		u.runDefers(fr, st)
	case *ssa.Go:
		u.note("goroutine spawn at %s: recorded as an event, interleaving not modelled", u.curPos)
		// arguments are evaluated; the body is not executed here
		for _, a := range in.Call.Args {
			if _, ok := fr.addrs[a]; !ok {
				u.val(fr, st, a)
			}
		}
		u.set(st, "G:spawned", App(SInt, "+", u.get(st, "G:spawned", SInt), IntN(1)))
		// which function value was spawned, and its first argument when that is a reference
		fnT, a0 := IntN(-1), IntN(0)
		switch in.Call.Value.(type) {
		case *ssa.Function, *ssa.MakeClosure, *ssa.Builtin:
		default:
			if !in.Call.IsInvoke() {
				if t, ok := fr.vals[in.Call.Value]; ok && t.Sort == SInt {
					fnT = t
				} else if t := u.val(fr, st, in.Call.Value); t.Sort == SInt {
					fnT = t
				}
			}
		}
		if len(in.Call.Args) > 0 {
			if t, ok := fr.vals[in.Call.Args[0]]; ok && t.Sort == SInt {
				a0 = t
			}
		}
		u.set(st, "G:spawnedFn", fnT)
		u.set(st, "G:spawnedArg0", a0)
	case *ssa.Send:
		ch := u.val(fr, st, in.Chan)
		x := u.val(fr, st, in.X)
		u.chanSend(st, in.Chan.Type(), ch, x)
	case *ssa.Select:
		u.execSelect(fr, st, in)
	case *ssa.Range:
		switch in.X.Type().Underlying().(type) {
		case *types.Map:
			m := u.val(fr, st, in.X)
			u.lockCheckMapRead(fr, st, in.X)
			dk, _, ds, _ := u.mapKeys(in.X.Type())
			_ = dk
			vk := fmt.Sprintf("V:f%d.%s", fr.id, in.Name())
			vs := elemSort(ds)
			u.varSort[vk] = vs
			u.set(st, vk, ConstArray(vs, TFalse))
			fr.iters[in] = &Iter{mapRef: m, mapT: in.X.Type(), visited: vk}
		default:
			unsup("range over %s", in.X.Type())
		}
	case *ssa.Next:
		u.execNext(fr, st, in)
	default:
		unsup("instruction %T (%s)", instr, instr)
	}
}

type edgeKey struct {
	frame    int
	from, to *ssa.BasicBlock
}

func (u *UnitGen) note(f string, a ...any) {
	s := fmt.Sprintf(f, a...)
	for _, n := range u.notes {
		if n == s {
			return
		}
	}
	u.notes = append(u.notes, s)
}

func addrKey(a *Addr) string {
	s := a.local + "|" + a.global + "|" + a.ref.S
	for _, p := range a.path {
		if p.idx != nil {
			s += fmt.Sprintf("[%s]", p.idx.S)
		} else {
			s += fmt.Sprintf(".%d", p.field)
		}
	}
	return s
}

func (u *UnitGen) execUnOp(fr *Frame, st *State, in *ssa.UnOp) {
	switch in.Op {
	case token.MUL: // load
		a := u.addrOf(fr, st, in.X)
		if len(a.path) == 0 {
			u.nilCheck(st, a, "load")
		}
		u.lockCheck(fr, st, a, false, in)
		v := u.load(st, a)
		u.setVal(fr, in, v)
		v = fr.vals[in]
		u.trackGuardedPath(a, v)
		// loaded values are well-typed
		if a.local == "" {
			// heap cells hold well-typed values on every path
			u.assumeStructural(u.typeFacts(st, v, in.Type()))
		}
		if _, ok := in.Type().Underlying().(*types.Signature); ok {
			if cl, ok := u.closureAt[addrKey(a)]; ok {
				fr.closures[in] = cl
			}
			fr.fnOrigin[in] = u.originOf(a)
			if a.local == "" && a.global == "" && a.slice == nil {
				fr.fnSelf[in] = a.ref
			}
		}
	case token.NOT:
		u.setVal(fr, in, Not(u.val(fr, st, in.X)))
	case token.SUB:
		x := u.val(fr, st, in.X)
		b := in.Type().Underlying().(*types.Basic)
		u.setVal(fr, in, wrapInt(App(SInt, "-", x), b))
	case token.ARROW:
		// receive: an arbitrary well-typed value
		et := in.X.Type().Underlying().(*types.Chan).Elem()
		v := u.havoc(fmt.Sprintf("f%d_%s_recv", fr.id, in.Name()), u.g.reg.SortOf(et))
		u.assumeType(st, v, et)
		u.chanRecv(st, in.X.Type(), u.val(fr, st, in.X), TTrue)
		if in.CommaOk {
			ok := u.havoc(fmt.Sprintf("f%d_%s_ok", fr.id, in.Name()), SBool)
			fr.tuples[in] = []Term{v, ok}
		} else {
			fr.vals[in] = v
		}
	default:
		unsup("unary op %s", in.Op)
	}
}

func (u *UnitGen) originOf(a *Addr) string {
	if a.global != "" {
		return a.global[2:]
	}
	if a.local == "" && a.slice == nil && len(a.path) == 1 && a.path[0].idx == nil {
		if n, ok := types.Unalias(a.objT).(*types.Named); ok && n.Obj().Pkg() != nil {
			return n.Obj().Pkg().Path() + "." + n.Obj().Name() + "." + a.objT.Underlying().(*types.Struct).Field(a.path[0].field).Name()
		}
	}
	return ""
}

func (u *UnitGen) binop(fr *Frame, st *State, op token.Token, xv, yv ssa.Value, resT types.Type) Term {
	x := u.val(fr, st, xv)
	y := u.val(fr, st, yv)
	xt := xv.Type().Underlying()
	switch op {
	case token.EQL, token.NEQ:
		var e Term
		if _, isSl := xt.(*types.Slice); isSl {
			// comparison with nil only
			other := y
			if c, ok := xv.(*ssa.Const); ok && c.Value == nil {
				other = y
			} else {
				other = x
			}
			e = Eq(SlLen(other), IntN(0))
			u.note("slice == nil is modelled as len == 0")
		} else {
			e = Eq(x, y)
		}
		if op == token.NEQ {
			return Not(e)
		}
		return e
	}
	b, isBasic := xt.(*types.Basic)
	if isBasic && b.Info()&types.IsString != 0 {
		switch op {
		case token.ADD:
			return App(SStr, "strcat", x, y)
		}
		unsup("string operator %s", op)
	}
	if isBasic && b.Info()&types.IsInteger != 0 {
		rb, _ := resT.Underlying().(*types.Basic)
		switch op {
		case token.ADD:
			return wrapInt(App(SInt, "+", x, y), rb)
		case token.SUB:
			return wrapInt(App(SInt, "-", x, y), rb)
		case token.MUL:
			return wrapInt(App(SInt, "*", x, y), rb)
		case token.LSS:
			return App(SBool, "<", x, y)
		case token.LEQ:
			return App(SBool, "<=", x, y)
		case token.GTR:
			return App(SBool, ">", x, y)
		case token.GEQ:
			return App(SBool, ">=", x, y)
		case token.QUO, token.REM:
			u.oblige(st, "safety", u.obName("safety:div"), "integer division by zero", Not(Eq(y, IntN(0))))
			// Go truncates toward zero
			q := Ite(App(SBool, ">=", x, IntN(0)),
				Ite(App(SBool, ">", y, IntN(0)), App(SInt, "div", x, y), App(SInt, "-", App(SInt, "div", x, App(SInt, "-", y)))),
				Ite(App(SBool, ">", y, IntN(0)), App(SInt, "-", App(SInt, "div", App(SInt, "-", x), y)), App(SInt, "div", App(SInt, "-", x), App(SInt, "-", y))))
			if op == token.QUO {
				return wrapInt(q, rb)
			}
			return App(SInt, "-", x, App(SInt, "*", y, q))
		}
	}
	if isBasic && b.Info()&types.IsBoolean != 0 {
		switch op {
		case token.AND, token.LAND:
			return And(x, y)
		case token.OR, token.LOR:
			return Or(x, y)
		}
	}
	unsup("binary op %s on %s", op, xv.Type())
	return Term{}
}

func (u *UnitGen) execConvert(fr *Frame, st *State, in *ssa.Convert) {
	x := u.val(fr, st, in.X)
	from, _ := in.X.Type().Underlying().(*types.Basic)
	to, _ := in.Type().Underlying().(*types.Basic)
	switch {
	case from != nil && to != nil && from.Info()&types.IsInteger != 0 && to.Info()&types.IsInteger != 0:
		u.setVal(fr, in, wrapInt(x, to))
	case to != nil && to.Info()&types.IsString != 0:
		// []byte/rune/int -> string: opaque
		v := u.havoc(fmt.Sprintf("f%d_%s_str", fr.id, in.Name()), SStr)
		fr.vals[in] = v
	case from != nil && from.Info()&types.IsString != 0:
		v := u.havoc(fmt.Sprintf("f%d_%s_conv", fr.id, in.Name()), u.g.reg.SortOf(in.Type()))
		u.assumeType(st, v, in.Type())
		fr.vals[in] = v
	case x.Sort == u.g.reg.SortOf(in.Type()):
		fr.vals[in] = x
	default:
		unsup("conversion %s -> %s", in.X.Type(), in.Type())
	}
}

func (u *UnitGen) execTypeAssert(fr *Frame, st *State, in *ssa.TypeAssert) {
	reg := u.g.reg
	x := u.val(fr, st, in.X)
	tag := App(SInt, "itag", x)
	pay := App(SInt, "ipay", x)
	var ok, v Term
	if _, isIface := in.AssertedType.Underlying().(*types.Interface); isIface {
		// assertion to an interface type: succeeds iff the dynamic type implements it
		var alts []Term
		impls := 0
		for i, t := range reg.tagTypes {
			if t == nil {
				continue
			}
			if types.Implements(t, in.AssertedType.Underlying().(*types.Interface)) {
				alts = append(alts, Eq(tag, IntN(int64(i))))
				impls++
			}
		}
		// dynamic types not yet registered are unknown: over-approximate with a fresh boolean
		unk := u.havoc(fmt.Sprintf("f%d_%s_implok", fr.id, in.Name()), SBool)
		ok = And(Not(Eq(tag, IntN(0))), Or(append(alts, unk)...))
		v = x
	} else {
		ok = Eq(tag, IntN(int64(reg.TypeTag(in.AssertedType))))
		v = reg.FromPayload(pay, in.AssertedType)
		// the value held by an interface whose dynamic type is T is a value of T (e.g. within
		// the integer range of T)
		if b, isBasic := in.AssertedType.Underlying().(*types.Basic); isBasic && b.Info()&types.IsInteger != 0 {
			u.assume(st, Implies(ok, u.typeFacts(st, v, in.AssertedType)))
		}
	}
	if in.CommaOk {
		okd := u.define(fmt.Sprintf("f%d_%s_ok", fr.id, in.Name()), ok)
		zero := reg.Zero(in.AssertedType)
		fr.tuples[in] = []Term{u.define(fmt.Sprintf("f%d_%s_v", fr.id, in.Name()), Ite(okd, v, zero)), okd}
		return
	}
	u.oblige(st, "safety", u.obName("safety:typeassert"), "type assertion to "+in.AssertedType.String()+" cannot fail", ok)
	u.setVal(fr, in, v)
}

func (u *UnitGen) execSlice(fr *Frame, st *State, in *ssa.Slice) {
	reg := u.g.reg
	if in.Low != nil {
		if c, ok := in.Low.(*ssa.Const); !ok || c.Int64() != 0 {
			unsup("slice expression with non-zero low bound")
		}
	}
	switch xt := in.X.Type().Underlying().(type) {
	case *types.Pointer: // pointer to array
		a := u.addrOf(fr, st, in.X)
		u.nilCheck(st, a, "slice of array")
		arr := u.load(st, a)
		at := xt.Elem().Underlying().(*types.Array)
		n := IntN(at.Len())
		if in.High != nil {
			n = u.val(fr, st, in.High)
		}
		so := reg.SortOf(in.Type())
		u.setVal(fr, in, MkSlice(so, arr, n))
	case *types.Slice:
		x := u.val(fr, st, in.X)
		if in.High == nil {
			fr.vals[in] = x
			return
		}
		h := u.val(fr, st, in.High)
		u.oblige(st, "safety", u.obName("safety:index"), "slice bounds in range", And(App(SBool, "<=", IntN(0), h)))
		u.setVal(fr, in, MkSlice(x.Sort, reg.SlData(x), h))
		u.note("s[:h] beyond len(s) up to cap(s) is not modelled (capacity is not tracked)")
	default:
		unsup("slice of %s", in.X.Type())
	}
}

// ---------------------------------------------------------------------------
// maps

func (u *UnitGen) mapDom(st *State, mt types.Type, m Term) Term {
	dk, _, ds, _ := u.mapKeys(mt)
	arr := u.get(st, dk, ds)
	u.logLoad(dk, arr)
	return Select(arr, m)
}

func (u *UnitGen) mapVals(st *State, mt types.Type, m Term) Term {
	_, vk, _, vs := u.mapKeys(mt)
	arr := u.get(st, vk, vs)
	u.logLoad(vk, arr)
	return Select(arr, m)
}

func (u *UnitGen) mapStore(st *State, mt types.Type, m, k, v Term) {
	dk, vk, ds, vs := u.mapKeys(mt)
	d := u.get(st, dk, ds)
	vv := u.get(st, vk, vs)
	u.markStore(dk, m)
	u.setDef(st, dk, Store(d, m, Store(Select(d, m), k, TTrue)))
	u.markStore(vk, m)
	u.setDef(st, vk, Store(vv, m, Store(Select(vv, m), k, v)))
}

func (u *UnitGen) mapDelete(st *State, mt types.Type, m, k Term) {
	dk, _, ds, _ := u.mapKeys(mt)
	d := u.get(st, dk, ds)
	// delete on a nil map is a no-op; the nil map has an empty domain by convention
	u.markStore(dk, m)
	u.setDef(st, dk, Ite(Eq(m, IntN(0)), d, Store(d, m, Store(Select(d, m), k, TFalse))))
}

func (u *UnitGen) execLookup(fr *Frame, st *State, in *ssa.Lookup) {
	reg := u.g.reg
	mt, ok := in.X.Type().Underlying().(*types.Map)
	if !ok {
		unsup("string indexing")
	}
	m := u.val(fr, st, in.X)
	k := u.val(fr, st, in.Index)
	u.lockCheckMapRead(fr, st, in.X)
	dom := u.mapDom(st, in.X.Type(), m)
	vals := u.mapVals(st, in.X.Type(), m)
	present := Select(dom, k)
	pres := u.define(fmt.Sprintf("f%d_%s_in", fr.id, in.Name()), present)
	v := u.define(fmt.Sprintf("f%d_%s_v", fr.id, in.Name()), Ite(pres, Select(vals, k), reg.Zero(mt.Elem())))
	u.assume(st, Implies(pres, u.typeFacts(st, v, mt.Elem())))
	if in.CommaOk {
		fr.tuples[in] = []Term{v, pres}
	} else {
		fr.vals[in] = v
	}
}

func (u *UnitGen) execNext(fr *Frame, st *State, in *ssa.Next) {
	if in.IsString {
		unsup("range over string")
	}
	it, ok := fr.iters[in.Iter]
	if !ok {
		unsup("next on unknown iterator")
	}
	mt := it.mapT.Underlying().(*types.Map)
	reg := u.g.reg
	ks := reg.SortOf(mt.Key())
	dom := u.mapDom(st, it.mapT, it.mapRef)
	vals := u.mapVals(st, it.mapT, it.mapRef)
	vis := u.get(st, it.visited, ArraySort(ks, SBool))
	k := u.havoc(fmt.Sprintf("f%d_%s_k", fr.id, in.Name()), ks)
	okc := u.havoc(fmt.Sprintf("f%d_%s_ok", fr.id, in.Name()), SBool)
	nonnil := TTrue
	u.assume(st, Implies(okc, And(nonnil, Select(dom, k), Not(Select(vis, k)))))
	// exhaustion: every present key has been visited
	q := fmt.Sprintf("(forall ((kk %s)) (! (=> (select %s kk) (select %s kk)) :pattern ((select %s kk))))", ks, dom.S, vis.S, dom.S)
	u.assume(st, Implies(Not(okc), Or(Not(nonnil), Term{q, SBool})))
	u.assumeType(st, k, mt.Key())
	v := u.define(fmt.Sprintf("f%d_%s_v", fr.id, in.Name()), Select(vals, k))
	u.assume(st, Implies(okc, u.typeFacts(st, v, mt.Elem())))
	u.setDef(st, it.visited, Store(vis, k, TTrue))
	fr.tuples[in] = []Term{okc, k, v}
}

// ---------------------------------------------------------------------------
// channels

func (u *UnitGen) chanSend(st *State, ct types.Type, ch, x Term) {
	dk, lk, ds, ls := u.sentKeys(ct)
	d := u.get(st, dk, ds)
	l := u.get(st, lk, ls)
	n := Select(l, ch)
	u.markStore(dk, ch)
	u.setDef(st, dk, Store(d, ch, Store(Select(d, ch), n, x)))
	u.markStore(lk, ch)
	u.setDef(st, lk, Store(l, ch, App(SInt, "+", n, IntN(1))))
}

// chanRecv counts a receive on ch in the ghost counter recvd(ch) (when cond holds).
func (u *UnitGen) chanRecv(st *State, ct types.Type, ch Term, cond Term) {
	rk, rs := u.recvKey(ct)
	r := u.get(st, rk, rs)
	u.markStore(rk, ch)
	u.setDef(st, rk, Ite(cond, Store(r, ch, App(SInt, "+", Select(r, ch), IntN(1))), r))
}

func (u *UnitGen) execSelect(fr *Frame, st *State, in *ssa.Select) {
	// nondeterministic choice among the cases (and default if non-blocking)
	idx := u.havoc(fmt.Sprintf("f%d_%s_idx", fr.id, in.Name()), SInt)
	lo := int64(0)
	if !in.Blocking {
		lo = -1
	}
	u.assume(st, And(App(SBool, "<=", IntN(lo), idx), App(SBool, "<", idx, IntN(int64(len(in.States))))))
	rok := u.havoc(fmt.Sprintf("f%d_%s_rok", fr.id, in.Name()), SBool)
	tup := []Term{idx, rok}
	for i, s := range in.States {
		ch := u.val(fr, st, s.Chan)
		if s.Dir == types.SendOnly {
			x := u.val(fr, st, s.Send)
			// conditional send
			dk, lk, ds, ls := u.sentKeys(s.Chan.Type())
			d := u.get(st, dk, ds)
			l := u.get(st, lk, ls)
			n := Select(l, ch)
			chosen := Eq(idx, IntN(int64(i)))
			u.setDef(st, dk, Ite(chosen, Store(d, ch, Store(Select(d, ch), n, x)), d))
			u.setDef(st, lk, Ite(chosen, Store(l, ch, App(SInt, "+", n, IntN(1))), l))
		} else {
			et := s.Chan.Type().Underlying().(*types.Chan).Elem()
			v := u.havoc(fmt.Sprintf("f%d_%s_r%d", fr.id, in.Name(), i), u.g.reg.SortOf(et))
			u.assumeType(st, v, et)
			tup = append(tup, v)
			u.chanRecv(st, s.Chan.Type(), ch, Eq(idx, IntN(int64(i))))
		}
	}
	fr.tuples[in] = tup
}
