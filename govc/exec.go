package main

// Symbolic execution of go/ssa function bodies into verification conditions.

import (
	"fmt"
	"go/token"
	"go/types"
	"sort"
	"strings"

	"golang.org/x/tools/go/packages"
	"golang.org/x/tools/go/ssa"
)

type Gen struct {
	prog       *ssa.Program
	pkgs       map[string]*packages.Package
	ssaPkgs    map[string]*ssa.Package
	specs      *Specs
	reg        *SortReg
	fset       *token.FileSet
	srcLine    map[string][]string
	genFile    map[string]bool
	repo       string // repository root the packages were loaded from
	guardMemo  map[*ssa.Function][]guardUse
	pureMemo   map[*ssa.Function]bool
	pureWhy    string
	closureIdx map[string]*ssa.Function
}

type Closure struct {
	fn       *ssa.Function
	bindings []ssa.Value
	bindT    []Term
	bindA    []*Addr
}

type Iter struct {
	mapRef  Term
	mapT    types.Type
	visited string // state key of the visited set
}

type Frame struct {
	id       int
	fn       *ssa.Function
	vals     map[ssa.Value]Term
	addrs    map[ssa.Value]*Addr
	tuples   map[ssa.Value][]Term
	closures map[ssa.Value]*Closure
	iters    map[ssa.Value]*Iter
	fnOrigin map[ssa.Value]string
	fnSelf   map[ssa.Value]Term
	depth    int
	params   []Term
	freeA    map[*ssa.FreeVar]*Addr
	freeT    map[*ssa.FreeVar]Term
	loops    []*loopInfo
	top      bool
	curBlock *ssa.BasicBlock
	env      *Env // contract environment of the unit (top frame)

	localNames  map[string]*ssa.Alloc
	defers      []deferred
	loopDefers  map[string]string
	guardOrigin map[ssa.Value]guardRef
}

type loopInfo struct {
	header   *ssa.BasicBlock
	blocks   map[*ssa.BasicBlock]bool
	backSrc  []*ssa.BasicBlock
	ordinal  int
	spec     *LoopSpec
	cutIndex int    // event index at which the loop was cut (modular loops)
	idxKey   string // rangeindex local key, if any
	iterVal  ssa.Value
	line     int
}

type exit struct {
	st      *State
	results []Term
	pos     string
}

func (u *UnitGen) newFrame(fn *ssa.Function, depth int) *Frame {
	u.nframes++
	return &Frame{id: u.nframes, fn: fn, depth: depth,
		vals: map[ssa.Value]Term{}, addrs: map[ssa.Value]*Addr{}, tuples: map[ssa.Value][]Term{},
		closures: map[ssa.Value]*Closure{}, iters: map[ssa.Value]*Iter{}, fnOrigin: map[ssa.Value]string{}, fnSelf: map[ssa.Value]Term{},
		freeA: map[*ssa.FreeVar]*Addr{}, freeT: map[*ssa.FreeVar]Term{},
		localNames: map[string]*ssa.Alloc{}, loopDefers: map[string]string{}, guardOrigin: map[ssa.Value]guardRef{}}
}

func (fr *Frame) localKey(a *ssa.Alloc) string {
	name := a.Comment
	if name == "" {
		name = a.Name()
	}
	return fmt.Sprintf("l:f%d.%s.%s", fr.id, a.Name(), mangle(name))
}

// findLoops computes natural loops from back edges (successor dominates source).
func findLoops(fn *ssa.Function) []*loopInfo {
	var loops []*loopInfo
	byHeader := map[*ssa.BasicBlock]*loopInfo{}
	for _, b := range fn.Blocks {
		for _, s := range b.Succs {
			if s.Dominates(b) {
				li := byHeader[s]
				if li == nil {
					li = &loopInfo{header: s, blocks: map[*ssa.BasicBlock]bool{s: true}}
					byHeader[s] = li
					loops = append(loops, li)
				}
				li.backSrc = append(li.backSrc, b)
				// collect body: nodes reaching b without passing through s
				stack := []*ssa.BasicBlock{b}
				for len(stack) > 0 {
					n := stack[len(stack)-1]
					stack = stack[:len(stack)-1]
					if li.blocks[n] {
						continue
					}
					li.blocks[n] = true
					for _, p := range n.Preds {
						stack = append(stack, p)
					}
				}
			}
		}
	}
	return loops
}

func (g *Gen) posLine(p token.Pos) (string, int) {
	if !p.IsValid() {
		return "", 0
	}
	pos := g.fset.Position(p)
	return pos.Filename, pos.Line
}

func blockLine(g *Gen, b *ssa.BasicBlock) int {
	best := 0
	for _, in := range b.Instrs {
		if _, l := g.posLine(in.Pos()); l > 0 && (best == 0 || l < best) {
			best = l
		}
	}
	return best
}

// orderLoops assigns source-order ordinals to loops (by the line of the
// for/range statement, taken from the header or its predecessors).
func (u *UnitGen) orderLoops(fr *Frame) {
	loops := findLoops(fr.fn)
	for _, li := range loops {
		li.line = loopLine(u.g, li)
	}
	sort.SliceStable(loops, func(i, j int) bool {
		if loops[i].line != loops[j].line {
			return loops[i].line < loops[j].line
		}
		return loops[i].header.Index < loops[j].header.Index
	})
	for i, li := range loops {
		li.ordinal = i + 1
	}
	fr.loops = loops
}

func loopLine(g *Gen, li *loopInfo) int {
	// The loop statement's position: smallest line among instructions of the header and the
	// blocks of the loop body.
	best := 0
	for b := range li.blocks {
		if l := blockLine(g, b); l > 0 && (best == 0 || l < best) {
			best = l
		}
	}
	// range loops evaluate the range expression in the predecessor of the header
	for _, p := range li.header.Preds {
		if li.blocks[p] {
			continue
		}
		for _, in := range p.Instrs {
			switch in.(type) {
			case *ssa.Range:
				if _, l := g.posLine(in.Pos()); l > 0 && (best == 0 || l < best) {
					best = l
				}
			}
		}
	}
	return best
}

func (fr *Frame) loopOf(h *ssa.BasicBlock) *loopInfo {
	for _, li := range fr.loops {
		if li.header == h {
			return li
		}
	}
	return nil
}

// rpo returns the blocks of region in reverse postorder from entry, ignoring back edges.
func rpo(entry *ssa.BasicBlock, region map[*ssa.BasicBlock]bool) []*ssa.BasicBlock {
	seen := map[*ssa.BasicBlock]bool{}
	var post []*ssa.BasicBlock
	var dfs func(b *ssa.BasicBlock)
	dfs = func(b *ssa.BasicBlock) {
		seen[b] = true
		for _, s := range b.Succs {
			if s.Dominates(b) { // back edge
				continue
			}
			if region != nil && !region[s] {
				continue
			}
			if !seen[s] {
				dfs(s)
			}
		}
		post = append(post, b)
	}
	dfs(entry)
	for i, j := 0, len(post)-1; i < j; i, j = i+1, j-1 {
		post[i], post[j] = post[j], post[i]
	}
	return post
}

// execRegion executes the blocks of region (nil = whole function) starting at
// entry with state st. startAtLoop: the entry is a loop header whose cut has
// already been performed by the caller.
func (u *UnitGen) execRegion(fr *Frame, entry *ssa.BasicBlock, region map[*ssa.BasicBlock]bool, st *State, skipCut *loopInfo) []exit {
	order := rpo(entry, region)
	in := map[*ssa.BasicBlock][]edgeState{}
	in[entry] = []edgeState{{st, TTrue}}
	var exits []exit
	for _, b := range order {
		ins := in[b]
		if len(ins) == 0 {
			continue
		}
		label := fmt.Sprintf("f%db%d", fr.id, b.Index)
		if fr.top {
			u.topBlock = b
			u.topFrame = fr
		}
		if fr.top && len(ins) > 1 && isPlainReturnBlock(b) && len(fr.defers) == 0 && len(fr.loopDefers) == 0 && fr.loopOf(b) == nil {
			// tail duplication: a return block is executed once per incoming path, so that the
			// postconditions are checked per path instead of on a merged state
			for i, e := range ins {
				cur := u.merge(fmt.Sprintf("%sp%d", label, i+1), []edgeState{e})
				for _, instr := range b.Instrs {
					if p := instr.Pos(); p.IsValid() {
						pos := u.g.fset.Position(p)
						u.curPos = fmt.Sprintf("%s:%d", shortFile(pos.Filename), pos.Line)
					}
					if t, ok := instr.(*ssa.Return); ok {
						var rs []Term
						for _, r := range t.Results {
							rs = append(rs, u.val(fr, cur, r))
						}
						exits = append(exits, exit{cur, rs, fmt.Sprintf("%s (path %d)", u.curPos, i+1)})
						continue
					}
					u.execInstr(fr, cur, instr)
				}
			}
			continue
		}
		cur := u.merge(label, ins)
		fr.curBlock = b
		if li := fr.loopOf(b); li != nil && li != skipCut {
			cur = u.cutLoop(fr, li, cur)
		}
		for _, instr := range b.Instrs {
			if p := instr.Pos(); p.IsValid() {
				pos := u.g.fset.Position(p)
				u.curPos = fmt.Sprintf("%s:%d", shortFile(pos.Filename), pos.Line)
				if fr.top {
					u.anchoredAsserts(fr, cur, pos.Filename, pos.Line)
				}
			}
			switch t := instr.(type) {
			case *ssa.If:
				c := u.val(fr, cur, t.Cond)
				u.pushEdge(fr, in, b, b.Succs[0], cur, c, region)
				u.pushEdge(fr, in, b, b.Succs[1], cur, Not(c), region)
			case *ssa.Jump:
				u.pushEdge(fr, in, b, b.Succs[0], cur, TTrue, region)
			case *ssa.Return:
				var rs []Term
				for _, r := range t.Results {
					rs = append(rs, u.val(fr, cur, r))
				}
				exits = append(exits, exit{cur, rs, u.curPos})
			case *ssa.Panic:
				u.oblige(cur, "safety", u.obName("safety:panic"), "explicit panic is unreachable", TFalse)
			default:
				u.execInstr(fr, cur, instr)
			}
		}
	}
	return exits
}

func shortFile(f string) string {
	if i := strings.Index(f, "/repo/"); i >= 0 {
		return f[i+6:]
	}
	if i := strings.Index(f, "/pkg/mod/"); i >= 0 {
		return f[i+9:]
	}
	return f
}

func (u *UnitGen) pushEdge(fr *Frame, in map[*ssa.BasicBlock][]edgeState, from, to *ssa.BasicBlock, st *State, cond Term, region map[*ssa.BasicBlock]bool) {
	if to.Dominates(from) {
		// back edge: the invariant must be re-established
		li := fr.loopOf(to)
		if li == nil {
			unsup("back edge to unknown loop")
		}
		es := &State{reach: And(st.reach, cond), vars: st.vars, epoch: st.epoch}
		kind := "inv-pres"
		if len(li.backSrc) > 1 {
			srcs := append([]*ssa.BasicBlock{}, li.backSrc...)
			sort.Slice(srcs, func(i, j int) bool { return srcs[i].Index < srcs[j].Index })
			for i, b := range srcs {
				if b == from {
					kind = fmt.Sprintf("inv-pres.b%d", i+1)
				}
			}
		}
		u.checkInvariants(fr, li, es, kind)
		return
	}
	if region != nil && !region[to] {
		return
	}
	u.edgeGuard[edgeKey{fr.id, from, to}] = u.define("eg", And(st.reach, cond))
	in[to] = append(in[to], edgeState{st, cond})
}

// cutLoop performs the loop cut at header li.header in state st (the merge of
// the entry edges): assert invariants, havoc what the body writes, assume
// the invariants.
func (u *UnitGen) cutLoop(fr *Frame, li *loopInfo, st *State) *State {
	if !fr.top {
		unsup("loop in inlined function %s", fr.fn.String())
	}
	u.bindLoopSpec(fr, li)
	u.checkInvariants(fr, li, st, "inv-init")

	// ---- dry run 1: which state variables does the body write?
	nEv, nObs := len(u.events), len(u.obs)
	savedFacts := map[string]bool{}
	for k := range u.g.reg.factSeen {
		savedFacts[k] = true
	}
	savedCtr := map[string]int{}
	for k, v := range u.obCtr {
		savedCtr[k] = v
	}
	savedAx := map[string]bool{}
	for k := range u.axiomDone {
		savedAx[k] = true
	}
	nAbn := len(u.abnormal)
	restore := func() {
		u.abnormal = u.abnormal[:nAbn]
		u.axiomDone = map[string]bool{}
		for k := range savedAx {
			u.axiomDone[k] = true
		}
		u.events = u.events[:nEv]
		u.obs = u.obs[:nObs]
		u.obCtr = map[string]int{}
		for k, v := range savedCtr {
			u.obCtr[k] = v
		}
		u.g.reg.factSeen = map[string]bool{}
		for k := range savedFacts {
			u.g.reg.factSeen[k] = true
		}
	}
	trk1 := newTracker()
	trk1.silent = true
	u.trackers = append(u.trackers, trk1)
	u.dry++
	u.execRegion(fr, li.header, li.blocks, st.clone(), li)
	u.dry--
	u.trackers = u.trackers[:len(u.trackers)-1]
	restore()

	keys := make([]string, 0, len(trk1.written))
	for k := range trk1.written {
		keys = append(keys, k)
	}
	sort.Strings(keys)

	// ---- dry run 2: from an arbitrary iteration (everything written is havoced), record
	// which objects each array is written at. A written index that does not depend on any
	// name created since the havoc is the same object in every iteration.
	outerNames := u.newNames
	u.newNames = map[string]bool{}
	outerDefs := u.newDefs
	u.newDefs = map[string]string{}
	tmp := st.clone()
	for _, k := range keys {
		if strings.HasPrefix(k, "region:") {
			u.havocRegion(tmp, k[len("region:"):])
		}
	}
	for _, k := range keys {
		if strings.HasPrefix(k, "region:") || strings.HasPrefix(k, "RC:") {
			continue
		}
		if r := u.regionOf(k); r != "" && trk1.written["region:"+r] {
			continue
		}
		if so, ok := u.varSort[k]; ok {
			tmp.vars[k] = u.havoc("dry_"+k, so)
		}
	}
	trk := newTracker()
	trk.silent = true
	u.trackers = append(u.trackers, trk)
	u.dry++
	u.execRegion(fr, li.header, li.blocks, tmp, li)
	u.dry--
	u.trackers = u.trackers[:len(u.trackers)-1]
	newNames := u.newNames
	newDefs := u.newDefs
	u.newNames = outerNames
	u.newDefs = outerDefs
	if outerNames != nil {
		for k := range newNames {
			outerNames[k] = true
		}
		for k, v := range newDefs {
			outerDefs[k] = v
		}
	}
	restore()
	// expandInvariant rewrites a term of the dry run into one over names that exist at the loop
	// head: names introduced by define-fun inside the body are replaced by their definitions;
	// a name that was declared (havoced) inside the body makes the term iteration-dependent.
	var expandInvariant func(t string, depth int) (string, bool)
	expandInvariant = func(t string, depth int) (string, bool) {
		if depth > 12 || len(t) > 4000 {
			return "", false
		}
		var sb strings.Builder
		i := 0
		for i < len(t) {
			c := t[i]
			if c == ' ' || c == '(' || c == ')' {
				sb.WriteByte(c)
				i++
				continue
			}
			j := i
			for j < len(t) && t[j] != ' ' && t[j] != '(' && t[j] != ')' {
				j++
			}
			tokn := t[i:j]
			i = j
			if !newNames[tokn] {
				sb.WriteString(tokn)
				continue
			}
			def, ok := newDefs[tokn]
			if !ok {
				return "", false
			}
			x, ok := expandInvariant(def, depth+1)
			if !ok {
				return "", false
			}
			sb.WriteString(x)
		}
		return sb.String(), true
	}
	invariantTerm := func(t string) bool {
		_, ok := expandInvariant(t, 0)
		return ok
	}

	// ---- the cut
	cutStart := len(u.events)
	ns := st.clone()
	for _, k := range keys {
		if strings.HasPrefix(k, "region:") {
			u.havocRegion(ns, k[len("region:"):])
		}
	}
	for _, k := range keys {
		if strings.HasPrefix(k, "region:") || strings.HasPrefix(k, "RC:") {
			continue
		}
		if r := u.regionOf(k); r != "" && trk1.written["region:"+r] {
			continue
		}
		so, ok := u.varSort[k]
		if !ok {
			continue
		}
		old := u.get(st, k, so)
		// classify the writes to k
		precise := keySortIsInt(so) && trk.nset[k] > 0 && trk.nset[k] == trk.nmark[k]
		var fixed []Term
		hasFresh := false
		if precise {
			seen := map[string]bool{}
			for _, w := range trk.refs[k] {
				switch {
				case w.fresh:
					hasFresh = true
				case invariantTerm(w.ref.S):
					x, _ := expandInvariant(w.ref.S, 0)
					if !seen[x] {
						seen[x] = true
						fixed = append(fixed, Term{x, w.ref.Sort})
					}
				default:
					precise = false
				}
			}
		}
		var nv Term
		switch {
		case precise && !hasFresh:
			// only the same objects are written in every iteration: everything else keeps its value
			arr := old
			for i, r := range fixed {
				fv := u.havoc(fmt.Sprintf("loop%d_%s_at%d", li.ordinal, k, i), elemSort(so))
				if strings.HasPrefix(k, "MD:") {
					arr = Ite(Eq(r, IntN(0)), arr, Store(arr, r, fv))
				} else {
					arr = Store(arr, r, fv)
				}
				u.typedFresh = append(u.typedFresh, typedVal{k, fv, true})
			}
			nv = u.define(fmt.Sprintf("loop%d_%s", li.ordinal, k), arr)
			for _, r := range fixed {
				u.markStore(k, r)
			}
			if len(fixed) == 0 {
				u.markStoreFresh(k)
			}
			u.set(ns, k, nv)
			u.loopFrames++
		case precise:
			nv = u.havoc(fmt.Sprintf("loop%d_%s", li.ordinal, k), so)
			u.pendingAxioms = append(u.pendingAxioms, pendingAxiom{k, nv})
			var ex []string
			for _, r := range fixed {
				ex = append(ex, fmt.Sprintf("(not (= r %s))", r.S))
				u.markStore(k, r)
			}
			u.markStoreFresh(k)
			u.set(ns, k, nv)
			q := fmt.Sprintf("(forall ((r Int)) (! (=> (and (< r %s) %s) (= (select %s r) (select %s r))) :pattern ((select %s r))))", u.top(st).S, strings.Join(append(ex, "true"), " "), nv.S, old.S, nv.S)
			u.assume(ns, Term{q, SBool})
			u.loopFrames++
		default:
			nv = u.havoc(fmt.Sprintf("loop%d_%s", li.ordinal, k), so)
			u.set(ns, k, nv)
			u.pendingAxioms = append(u.pendingAxioms, pendingAxiom{k, nv})
		}
		if k == "top" {
			u.assumeStructural(Implies(ns.reach, App(SBool, "<=", u.top(st), nv)))
		}
		if strings.HasPrefix(k, "l:") {
			if ty, ok := u.localTypes[k]; ok {
				u.assumeType(ns, nv, ty)
			}
		}
	}
	if u.dry == 0 && len(trk.claimed) > 0 {
		al := &activeLoop{li: li, fr: fr, headTop: u.top(ns), keys: map[string]bool{}}
		for k := range trk.claimed {
			al.keys[k] = true
		}
		u.activeLoops = append(u.activeLoops, al)
	}
	for _, pa := range u.pendingAxioms {
		u.heapAxiom(ns, pa.key, pa.arr)
	}
	u.pendingAxioms = nil
	for _, tv := range u.typedFresh {
		u.assumeTypedVal(ns, tv)
	}
	u.typedFresh = nil
	if li.spec != nil && li.spec.Modular && u.dry == 0 {
		li.cutIndex = cutStart
	}
	u.assumeInvariants(fr, li, ns)
	return ns
}

type pendingAxiom struct {
	key string
	arr Term
}

func (u *UnitGen) bindLoopSpec(fr *Frame, li *loopInfo) {
	if li.spec != nil || u.contract == nil {
		return
	}
	li.spec = u.contract.Loops[li.ordinal]
	if li.spec != nil && li.spec.Anchor != "" {
		file, _ := u.g.posLine(fr.fn.Pos())
		lines := u.g.lines(file)
		ok := false
		// the anchor must occur on the loop line (or the line before, for multi-line headers)
		for d := -1; d <= 1; d++ {
			if n := li.line + d; n >= 1 && n <= len(lines) && strings.Contains(lines[n-1], li.spec.Anchor) {
				ok = true
			}
		}
		if !ok {
			// The anchor guards against ordinal drift (a loop added or removed above this one). When
			// the function still has exactly the loops the contract describes, the ordinal alone
			// identifies the loop and a cosmetic edit of the loop line is not an alarm.
			if len(fr.loops) == len(u.contract.Loops) {
				u.note("loop %d: anchor %q no longer on the loop line (line %d); matched by ordinal (loop count unchanged)", li.ordinal, li.spec.Anchor, li.line)
			} else {
				unsup("loop %d anchor %q not found at line %d of %s (ordinal drift?)", li.ordinal, li.spec.Anchor, li.line, shortFile(file))
			}
		}
	}
}

func (g *Gen) lines(file string) []string {
	if l, ok := g.srcLine[file]; ok {
		return l
	}
	var out []string
	if data, err := readFile(file); err == nil {
		out = strings.Split(string(data), "\n")
	}
	g.srcLine[file] = out
	return out
}

func (u *UnitGen) loopEnv(fr *Frame, li *loopInfo, st *State) *Env {
	e := fr.env.withState(st)
	e.fr = fr
	e.loop = li
	return e
}

func (u *UnitGen) autoInvariants(fr *Frame, li *loopInfo, st *State) []Term {
	var out []Term
	// rangeindex locals stay >= -1
	for b := range li.blocks {
		for _, in := range b.Instrs {
			if s, ok := in.(*ssa.Store); ok {
				if a, ok := s.Addr.(*ssa.Alloc); ok && a.Comment == "rangeindex" && !a.Heap && s.Block() == li.header {
					k := fr.localKey(a)
					if _, ok := u.varSort[k]; ok {
						out = append(out, App(SBool, "<=", IntN(-1), u.get(st, k, SInt)))
						// upper bound: the loop condition compares index+1 with the length
						if iff, ok := s.Block().Instrs[len(s.Block().Instrs)-1].(*ssa.If); ok {
							if cmp, ok := iff.Cond.(*ssa.BinOp); ok && cmp.Op == token.LSS {
								if lt, ok := fr.vals[cmp.Y]; ok {
									out = append(out, App(SBool, "<", u.get(st, k, SInt), lt))
								}
							}
						}
					}
				}
			}
		}
	}
	return dedupTerms(out)
}

func dedupTerms(ts []Term) []Term {
	seen := map[string]bool{}
	var out []Term
	for _, t := range ts {
		if !seen[t.S] {
			seen[t.S] = true
			out = append(out, t)
		}
	}
	return out
}

func (u *UnitGen) checkInvariants(fr *Frame, li *loopInfo, st *State, kind string) {
	if u.dry > 0 {
		return
	}
	for i, t := range u.autoInvariants(fr, li, st) {
		u.oblige(st, kind, fmt.Sprintf("loop%d/%s#auto%d", li.ordinal, kind, i+1), "-1 <= rangeindex < len", t)
	}
	if li.spec == nil {
		return
	}
	env := u.loopEnv(fr, li, st)
	unl := 0
	for _, c := range li.spec.Invs {
		name := c.Label
		if name == "" {
			unl++
			name = fmt.Sprint(unl)
		}
		t := env.evalBool(c.E)
		u.oblige(st, kind, fmt.Sprintf("loop%d/%s#%s", li.ordinal, kind, name), c.Text, t)
	}
}

func (u *UnitGen) assumeInvariants(fr *Frame, li *loopInfo, st *State) {
	for _, t := range u.autoInvariants(fr, li, st) {
		u.assume(st, t)
	}
	if li.spec == nil {
		return
	}
	env := u.loopEnv(fr, li, st)
	for _, c := range li.spec.Invs {
		u.assume(st, env.evalBool(c.E))
	}
}

func keySortIsInt(so Sort) bool {
	return strings.HasPrefix(string(so), "(Array Int ")
}

// anchoredAsserts checks "assert at <anchor>" clauses attached to the source line about to execute.
// Each clause is checked once per distinct (block) arrival at the line: before the first
// instruction of that line in the current block.
func (u *UnitGen) anchoredAsserts(fr *Frame, st *State, file string, line int) {
	if u.contract == nil || (len(u.contract.Asserts) == 0 && len(u.contract.Ghosts) == 0) {
		return
	}
	key := fmt.Sprintf("%s:%d:%p:%d", file, line, st, u.dry)
	if u.assertDone[key] {
		return
	}
	u.assertDone[key] = true
	lines := u.g.lines(file)
	if line < 1 || line > len(lines) {
		return
	}
	// ghost snapshots: "at <anchor> ghost name = expr" stores the value of expr before the line executes
	for i := range u.contract.Ghosts {
		gu := &u.contract.Ghosts[i]
		if gu.Anchor == "" || !strings.Contains(lines[line-1], gu.Anchor) {
			continue
		}
		gu.Hits++
		env := fr.env.withState(st)
		env.fr = fr
		env.atAnchor = true
		env.loop = innermostLoop(fr)
		v := env.eval(gu.E)
		if _, declared := u.g.specs.GhostVars[gu.Var]; declared {
			// update of a declared ghost variable (part of the unit's state: framed, havoced by loops)
			u.setDef(st, "G:"+gu.Var, v.T)
			continue
		}
		gk := "GL:" + gu.Var
		u.varSort[gk] = v.T.Sort
		u.ghostLocals[gu.Var] = Val{Ty: v.Ty, isDom: v.isDom, KeyTy: v.KeyTy}
		u.setDef(st, gk, v.T)
	}
	if u.dry > 0 {
		return
	}
	for i := range u.contract.Asserts {
		a := &u.contract.Asserts[i]
		if a.Dead || !strings.Contains(lines[line-1], a.Anchor) {
			continue
		}
		a.Hits++
		env := fr.env.withState(st)
		env.fr = fr
		env.atAnchor = true
		env.loop = innermostLoop(fr)
		name := a.Label
		if name == "" {
			name = fmt.Sprint(unlabelledBefore(u.contract.Asserts, i) + 1)
		}
		u.assertCtr[name]++
		full := fmt.Sprintf("at:%s#%d", name, u.assertCtr[name])
		if a.Check {
			// proved where it stands, never used afterwards: the facts produced while evaluating the
			// clause (typing and axiom instances over its terms) are scoped to this one obligation
			start := len(u.events)
			saved := map[string]bool{}
			for k := range u.g.reg.factSeen {
				saved[k] = true
			}
			ob := u.oblige(st, "check", full, a.Text, env.evalBool(a.E))
			for k := range u.g.reg.factSeen {
				if !saved[k] {
					delete(u.g.reg.factSeen, k)
				}
			}
			if ob != nil {
				for j := start; j < len(u.events); j++ {
					if u.events[j].Kind == EvAssume {
						u.events[j].Scope = ob
					}
				}
			}
			continue
		}
		u.oblige(st, "assert", full, a.Text, env.evalBool(a.E))
	}
}

// isPlainReturnBlock: a block that only stores/loads locals and returns.
func isPlainReturnBlock(b *ssa.BasicBlock) bool {
	if len(b.Instrs) == 0 || len(b.Instrs) > 16 {
		return false
	}
	if _, ok := b.Instrs[len(b.Instrs)-1].(*ssa.Return); !ok {
		return false
	}
	for _, in := range b.Instrs {
		switch in.(type) {
		case *ssa.Store, *ssa.UnOp, *ssa.RunDefers, *ssa.Return, *ssa.DebugRef, *ssa.MakeInterface, *ssa.ChangeInterface:
		default:
			return false
		}
	}
	return true
}

// innermostLoop: the smallest loop of the frame containing the block being executed (so that
// anchored asserts and ghost updates inside a loop body can say ranged[loopi-1] for the current
// element instead of naming the loop variable).
func innermostLoop(fr *Frame) *loopInfo {
	var best *loopInfo
	for _, li := range fr.loops {
		if fr.curBlock != nil && li.blocks[fr.curBlock] && (best == nil || len(li.blocks) < len(best.blocks)) {
			best = li
		}
	}
	return best
}

// unlabelledBefore: how many of the asserts before index i carry no label (unlabelled clauses are numbered among themselves).
func unlabelledBefore(as []AssertAt, i int) int {
	n := 0
	for j := 0; j < i && j < len(as); j++ {
		if as[j].Label == "" {
			n++
		}
	}
	return n
}
