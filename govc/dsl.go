package main

// Contract expression language: Go-expression syntax plus ==>, <==>, old(),
// forall/exists with bounded or typed binders.

import (
	"fmt"
	"strings"
)

type Expr interface{ exprString() string }

type EIdent struct{ Name string }
type ELit struct {
	Kind string // int, string
	Val  string
}
type ESel struct {
	X    Expr
	Name string
}
type ECall struct {
	Fun  Expr
	Args []Expr
}
type EIndex struct{ X, I Expr }
type EUnary struct {
	Op string
	X  Expr
}
type EBinary struct {
	Op   string
	X, Y Expr
}
type Binder struct {
	Name string
	Kind string // dom | range | type | elems
	A, B Expr
	Type string
}
type EQuant struct {
	Forall  bool
	Binders []Binder
	Body    Expr
}
type EOld struct{ X Expr }
type ETypeIs struct {
	X    Expr
	Type string
}

func (e *EIdent) exprString() string { return e.Name }
func (e *ELit) exprString() string {
	if e.Kind == "string" {
		return fmt.Sprintf("%q", e.Val)
	}
	return e.Val
}
func (e *ESel) exprString() string { return e.X.exprString() + "." + e.Name }
func (e *ECall) exprString() string {
	var as []string
	for _, a := range e.Args {
		as = append(as, a.exprString())
	}
	return e.Fun.exprString() + "(" + strings.Join(as, ", ") + ")"
}
func (e *EIndex) exprString() string { return e.X.exprString() + "[" + e.I.exprString() + "]" }
func (e *EUnary) exprString() string { return e.Op + e.X.exprString() }
func (e *EBinary) exprString() string {
	return "(" + e.X.exprString() + " " + e.Op + " " + e.Y.exprString() + ")"
}
func (e *EQuant) exprString() string {
	q := "exists"
	if e.Forall {
		q = "forall"
	}
	var bs []string
	for _, b := range e.Binders {
		switch b.Kind {
		case "dom":
			bs = append(bs, b.Name+" in dom("+b.A.exprString()+")")
		case "elems":
			bs = append(bs, b.Name+" in elems("+b.A.exprString()+")")
		case "range":
			bs = append(bs, b.Name+" in "+b.A.exprString()+".."+b.B.exprString())
		case "set":
			bs = append(bs, b.Name+" in "+b.A.exprString())
		default:
			bs = append(bs, b.Name+": "+b.Type)
		}
	}
	return q + " " + strings.Join(bs, ", ") + " :: " + e.Body.exprString()
}
func (e *EOld) exprString() string    { return "old(" + e.X.exprString() + ")" }
func (e *ETypeIs) exprString() string { return e.X.exprString() + ".(" + e.Type + ")" }

// ---------------------------------------------------------------------------
// Lexer

type tok struct {
	k string // ident, int, string, op, eof
	v string
	p int
}

func lex(src string) ([]tok, error) {
	var out []tok
	i := 0
	for i < len(src) {
		c := src[i]
		switch {
		case c == ' ' || c == '\t' || c == '\n' || c == '\r':
			i++
		case isIdentStart(c):
			j := i
			for j < len(src) && isIdentPart(src[j]) {
				j++
			}
			out = append(out, tok{"ident", src[i:j], i})
			i = j
		case c >= '0' && c <= '9':
			j := i
			for j < len(src) && (src[j] >= '0' && src[j] <= '9' || src[j] == '_') {
				j++
			}
			out = append(out, tok{"int", strings.ReplaceAll(src[i:j], "_", ""), i})
			i = j
		case c == '"' || c == '`':
			j := i + 1
			var sb strings.Builder
			for j < len(src) && src[j] != c {
				if c == '"' && src[j] == '\\' && j+1 < len(src) {
					j++
					switch src[j] {
					case 'n':
						sb.WriteByte('\n')
					case 't':
						sb.WriteByte('\t')
					default:
						sb.WriteByte(src[j])
					}
					j++
					continue
				}
				sb.WriteByte(src[j])
				j++
			}
			if j >= len(src) {
				return nil, fmt.Errorf("unterminated string at %d", i)
			}
			out = append(out, tok{"string", sb.String(), i})
			i = j + 1
		default:
			ops := []string{"<==>", "==>", "::", "..", "==", "!=", "<=", ">=", "&&", "||", ".(", "(", ")", "[", "]", ".", ",", "!", "<", ">", "+", "-", "*", "/", "%", ":", "{", "}"}
			matched := false
			for _, op := range ops {
				if strings.HasPrefix(src[i:], op) {
					out = append(out, tok{"op", op, i})
					i += len(op)
					matched = true
					break
				}
			}
			if !matched {
				return nil, fmt.Errorf("unexpected character %q at %d in %q", c, i, src)
			}
		}
	}
	out = append(out, tok{"eof", "", len(src)})
	return out, nil
}

func isIdentStart(c byte) bool {
	return c == '_' || c >= 'a' && c <= 'z' || c >= 'A' && c <= 'Z'
}
func isIdentPart(c byte) bool { return isIdentStart(c) || c >= '0' && c <= '9' || c == '$' }

type parser struct {
	toks []tok
	i    int
	src  string
}

func ParseExpr(src string) (e Expr, err error) {
	toks, err := lex(src)
	if err != nil {
		return nil, err
	}
	p := &parser{toks: toks, src: src}
	defer func() {
		if r := recover(); r != nil {
			if pe, ok := r.(parseErr); ok {
				err = fmt.Errorf("%s (in %q)", string(pe), src)
				return
			}
			panic(r)
		}
	}()
	e = p.formula()
	if p.peek().k != "eof" {
		p.fail("unexpected %q", p.peek().v)
	}
	return e, nil
}

type parseErr string

func (p *parser) fail(f string, a ...any) {
	panic(parseErr(fmt.Sprintf("parse error at %d: ", p.peek().p) + fmt.Sprintf(f, a...)))
}
func (p *parser) peek() tok { return p.toks[p.i] }
func (p *parser) next() tok { t := p.toks[p.i]; p.i++; return t }
func (p *parser) isOp(v string) bool {
	t := p.peek()
	return t.k == "op" && t.v == v
}
func (p *parser) isKw(v string) bool {
	t := p.peek()
	return t.k == "ident" && t.v == v
}
func (p *parser) expectOp(v string) {
	if !p.isOp(v) {
		p.fail("expected %q, got %q", v, p.peek().v)
	}
	p.next()
}

func (p *parser) formula() Expr {
	if p.isKw("forall") || p.isKw("exists") {
		q := &EQuant{Forall: p.next().v == "forall"}
		for {
			name := p.next()
			if name.k != "ident" {
				p.fail("binder name expected")
			}
			b := Binder{Name: name.v}
			if p.isKw("in") {
				p.next()
				if p.isKw("dom") || p.isKw("elems") {
					b.Kind = p.next().v
					p.expectOp("(")
					b.A = p.formula()
					p.expectOp(")")
				} else {
					b.A = p.add()
					if p.isOp("..") {
						b.Kind = "range"
						p.next()
						b.B = p.add()
					} else {
						b.Kind = "set"
					}
				}
			} else if p.isOp(":") {
				p.next()
				b.Kind = "type"
				b.Type = p.typeName()
			} else {
				p.fail("expected 'in' or ':' after binder")
			}
			q.Binders = append(q.Binders, b)
			if p.isOp(",") {
				p.next()
				continue
			}
			break
		}
		p.expectOp("::")
		q.Body = p.formula()
		return q
	}
	return p.iff()
}

func (p *parser) typeName() string {
	var sb strings.Builder
	for p.isOp("*") || p.isOp("[") || p.isOp("]") {
		sb.WriteString(p.next().v)
	}
	t := p.next()
	if t.k != "ident" {
		p.fail("type name expected")
	}
	sb.WriteString(t.v)
	for p.isOp(".") {
		p.next()
		t = p.next()
		sb.WriteString("." + t.v)
	}
	return sb.String()
}

func (p *parser) iff() Expr {
	x := p.impl()
	for p.isOp("<==>") {
		p.next()
		y := p.impl()
		x = &EBinary{"<==>", x, y}
	}
	return x
}

func (p *parser) impl() Expr {
	x := p.or()
	if p.isOp("==>") {
		p.next()
		var y Expr
		if p.isKw("forall") || p.isKw("exists") {
			y = p.formula()
		} else {
			y = p.impl()
		}
		return &EBinary{"==>", x, y}
	}
	return x
}

func (p *parser) or() Expr {
	x := p.and()
	for p.isOp("||") {
		p.next()
		x = &EBinary{"||", x, p.and()}
	}
	return x
}

func (p *parser) and() Expr {
	x := p.cmp()
	for p.isOp("&&") {
		p.next()
		x = &EBinary{"&&", x, p.cmp()}
	}
	return x
}

func (p *parser) cmp() Expr {
	x := p.add()
	t := p.peek()
	if t.k == "op" {
		switch t.v {
		case "==", "!=", "<", "<=", ">", ">=":
			p.next()
			return &EBinary{t.v, x, p.add()}
		case "!":
			// "!in"
			if p.toks[p.i+1].k == "ident" && p.toks[p.i+1].v == "in" {
				p.next()
				p.next()
				return &EUnary{"!", &EBinary{"in", x, p.add()}}
			}
		}
	}
	if t.k == "ident" && t.v == "in" {
		p.next()
		return &EBinary{"in", x, p.add()}
	}
	return x
}

func (p *parser) add() Expr {
	x := p.mul()
	for p.isOp("+") || p.isOp("-") {
		op := p.next().v
		x = &EBinary{op, x, p.mul()}
	}
	return x
}

func (p *parser) mul() Expr {
	x := p.unary()
	for p.isOp("*") || p.isOp("/") || p.isOp("%") {
		op := p.next().v
		x = &EBinary{op, x, p.unary()}
	}
	return x
}

func (p *parser) unary() Expr {
	if p.isOp("!") || p.isOp("-") || p.isOp("*") {
		op := p.next().v
		return &EUnary{op, p.unary()}
	}
	return p.postfix()
}

func (p *parser) postfix() Expr {
	x := p.primary()
	for {
		switch {
		case p.isOp("."):
			p.next()
			t := p.next()
			if t.k != "ident" {
				p.fail("field name expected")
			}
			x = &ESel{x, t.v}
		case p.isOp(".("):
			p.next()
			ty := p.typeName()
			p.expectOp(")")
			x = &ETypeIs{x, ty}
		case p.isOp("("):
			p.next()
			var args []Expr
			for !p.isOp(")") {
				args = append(args, p.formula())
				if p.isOp(",") {
					p.next()
				}
			}
			p.expectOp(")")
			if id, ok := x.(*EIdent); ok && id.Name == "old" {
				if len(args) != 1 {
					p.fail("old takes one argument")
				}
				x = &EOld{args[0]}
			} else {
				x = &ECall{x, args}
			}
		case p.isOp("["):
			p.next()
			i := p.formula()
			p.expectOp("]")
			x = &EIndex{x, i}
		default:
			return x
		}
	}
}

func (p *parser) primary() Expr {
	t := p.next()
	switch t.k {
	case "ident":
		if t.v == "forall" || t.v == "exists" {
			// a quantifier in operand position extends as far to the right as possible
			p.i--
			return p.formula()
		}
		return &EIdent{t.v}
	case "int":
		return &ELit{"int", t.v}
	case "string":
		return &ELit{"string", t.v}
	case "op":
		if t.v == "(" {
			e := p.formula()
			p.expectOp(")")
			return e
		}
	}
	p.i--
	p.fail("unexpected token %q", t.v)
	return nil
}
