package main

// Evaluation of contract expressions to SMT terms in a symbolic state.

import (
	"fmt"
	"go/constant"
	"go/types"
	"strings"

	"golang.org/x/tools/go/ssa"
)

type Val struct {
	T    Term
	Ty   types.Type // Go type (nil for spec-level values)
	Addr *Addr      // where the value lives, when it denotes a location
	// map views
	isDom bool
	KeyTy types.Type // key type of a domain/set value, when known
}

type Env struct {
	u        *UnitGen
	vars     map[string]Val
	cur      *State
	old      *State
	pkgPath  string
	fr       *Frame
	loop     *loopInfo
	depth    int
	atAnchor bool // evaluating an anchored assert / ghost update inside the function body
}

func (e *Env) withState(st *State) *Env {
	n := *e
	n.cur = st
	return &n
}

func (e *Env) bind(name string, v Val) *Env {
	n := *e
	n.vars = make(map[string]Val, len(e.vars)+1)
	for k, x := range e.vars {
		n.vars[k] = x
	}
	n.vars[name] = v
	return &n
}

func (e *Env) fail(f string, a ...any) {
	unsup("contract expression: "+f, a...)
}

func (e *Env) pkg() *types.Package {
	if p, ok := e.u.g.pkgs[e.pkgPath]; ok {
		return p.Types
	}
	// dependency package
	for _, p := range e.u.g.prog.AllPackages() {
		if p.Pkg.Path() == e.pkgPath {
			return p.Pkg
		}
	}
	return nil
}

// importNamed resolves an import name as used in the package's source files.
func (e *Env) importNamed(name string) *types.Package {
	if p, ok := e.u.g.pkgs[e.pkgPath]; ok {
		for _, f := range p.Syntax {
			for _, im := range f.Imports {
				path := strings.Trim(im.Path.Value, `"`)
				ip := p.Imports[path]
				if ip == nil {
					continue
				}
				n := ip.Types.Name()
				if im.Name != nil {
					n = im.Name.Name
				}
				if n == name {
					return ip.Types
				}
			}
		}
	}
	// spec files: well-known aliases
	if path, ok := wellKnownImports[name]; ok {
		for _, p := range e.u.g.prog.AllPackages() {
			if p.Pkg.Path() == path {
				return p.Pkg
			}
		}
	}
	return nil
}

var wellKnownImports = map[string]string{
	"spb":       "github.com/openconfig/gribi/v1/proto/service",
	"aftpb":     "github.com/openconfig/gribi/v1/proto/gribi_aft",
	"aft":       "github.com/openconfig/gribigo/aft",
	"codes":     "google.golang.org/grpc/codes",
	"status":    "google.golang.org/grpc/status",
	"constants": "github.com/openconfig/gribigo/constants",
	"rib":       "github.com/openconfig/gribigo/rib",
	"client":    "github.com/openconfig/gribigo/client",
	"enums":     "github.com/openconfig/gribi/v1/proto/gribi_aft/enums",
	"wpb":       "github.com/openconfig/ygot/proto/ywrapper",
	"uint128":   "lukechampine.com/uint128",
}

func (e *Env) resolveType(s string) types.Type {
	s = strings.TrimSpace(s)
	if strings.HasPrefix(s, "*") {
		return types.NewPointer(e.resolveType(s[1:]))
	}
	if strings.HasPrefix(s, "[]") {
		return types.NewSlice(e.resolveType(s[2:]))
	}
	if strings.HasPrefix(s, "map[") {
		d := 0
		for i := 3; i < len(s); i++ {
			switch s[i] {
			case '[':
				d++
			case ']':
				d--
				if d == 0 {
					return types.NewMap(e.resolveType(s[4:i]), e.resolveType(s[i+1:]))
				}
			}
		}
	}
	switch s {
	case "int":
		return types.Typ[types.Int]
	case "int64":
		return types.Typ[types.Int64]
	case "int32":
		return types.Typ[types.Int32]
	case "uint64":
		return types.Typ[types.Uint64]
	case "uint32":
		return types.Typ[types.Uint32]
	case "string":
		return types.Typ[types.String]
	case "bool":
		return types.Typ[types.Bool]
	case "error":
		return types.Universe.Lookup("error").Type()
	case "any":
		return types.Universe.Lookup("any").Type()
	}
	if i := strings.Index(s, "."); i >= 0 {
		p := e.importNamed(s[:i])
		if p == nil {
			e.fail("unknown package %q in type %q", s[:i], s)
		}
		o := p.Scope().Lookup(s[i+1:])
		if o == nil {
			e.fail("unknown type %q", s)
		}
		return o.Type()
	}
	if p := e.pkg(); p != nil {
		if o := p.Scope().Lookup(s); o != nil {
			if _, ok := o.(*types.TypeName); ok {
				return o.Type()
			}
		}
	}
	e.fail("unknown type %q", s)
	return nil
}

func (e *Env) sortOfName(s string) (Sort, types.Type) {
	switch s {
	case "Int", "int":
		return SInt, nil
	case "Bool", "bool":
		return SBool, nil
	case "Str":
		return SStr, nil
	case "string":
		return SStr, types.Typ[types.String]
	case "Iface":
		return SIface, nil
	case "IntSet":
		return ArraySort(SInt, SBool), nil
	case "StrSet":
		return ArraySort(SStr, SBool), nil
	case "IfaceSet":
		return ArraySort(SIface, SBool), nil
	case "StrIntMap":
		return ArraySort(SStr, SInt), nil
	case "IntIntMap":
		return ArraySort(SInt, SInt), nil
	case "IntStrMap":
		return ArraySort(SInt, SStr), nil
	case "IfaceIntMap":
		return ArraySort(SIface, SInt), nil
	}
	t := e.resolveType(s)
	return e.u.g.reg.SortOf(t), t
}

func (e *Env) evalBool(x Expr) Term {
	v := e.eval(x)
	if v.T.Sort != SBool {
		e.fail("%s is not boolean (sort %s)", x.exprString(), v.T.Sort)
	}
	return v.T
}

func spec(t Term) Val { return Val{T: t} }

func (e *Env) eval(x Expr) Val {
	u := e.u
	reg := u.g.reg
	switch x := x.(type) {
	case *ELit:
		if x.Kind == "int" {
			return spec(IntLit(x.Val))
		}
		return Val{T: reg.StrLit(x.Val), Ty: types.Typ[types.String]}
	case *EIdent:
		return e.evalIdent(x.Name)
	case *EOld:
		n := *e
		n.cur = e.old
		return n.eval(x.X)
	case *EUnary:
		switch x.Op {
		case "!":
			return spec(Not(e.evalBool(x.X)))
		case "-":
			return spec(App(SInt, "-", e.eval(x.X).T))
		case "*":
			v := e.eval(x.X)
			pt, ok := v.Ty.Underlying().(*types.Pointer)
			if !ok {
				e.fail("deref of non-pointer %s", x.X.exprString())
			}
			a := &Addr{ref: v.T, objT: pt.Elem(), valT: pt.Elem()}
			return Val{T: u.load(e.cur, a), Ty: pt.Elem(), Addr: a}
		}
	case *EBinary:
		return e.evalBinary(x)
	case *ESel:
		return e.evalSel(x)
	case *EIndex:
		return e.evalIndex(x)
	case *ECall:
		return e.evalCall(x)
	case *EQuant:
		return e.evalQuant(x)
	case *ETypeIs:
		v := e.eval(x.X)
		t := e.resolveType(x.Type)
		return Val{T: reg.FromPayload(App(SInt, "ipay", v.T), t), Ty: t}
	}
	e.fail("cannot evaluate %s", x.exprString())
	return Val{}
}

func (e *Env) evalIdent(name string) Val {
	u := e.u
	if (e.loop != nil || e.atAnchor) && e.fr != nil && e.cur != e.old {
		// inside a loop invariant (and an anchored assert / ghost update) a parameter name denotes the current value of the parameter's
		// cell (parameters are mutable in Go); old(p) still gives the value on entry
		if _, isVar := e.vars[name]; isVar {
			if a, ok := e.fr.localNames[name]; ok && !a.Heap {
				if isParamCell(e.fr.fn, a) {
					et := a.Type().(*types.Pointer).Elem()
					k := e.fr.localKey(a)
					return Val{T: u.get(e.cur, k, u.g.reg.SortOf(et)), Ty: et, Addr: &Addr{local: k, valT: et}}
				}
			}
		}
	}
	if v, ok := e.vars[name]; ok {
		return v
	}
	switch name {
	case "true":
		return spec(TTrue)
	case "false":
		return spec(TFalse)
	case "nil":
		return Val{T: Term{"nil", "Nil"}}
	case "loopi":
		if e.loop != nil && e.fr != nil {
			for b := range e.loop.blocks {
				for _, in := range b.Instrs {
					if s, ok := in.(*ssa.Store); ok {
						if a, ok := s.Addr.(*ssa.Alloc); ok && a.Comment == "rangeindex" && !a.Heap && s.Block() == e.loop.header {
							return spec(App(SInt, "+", u.get(e.cur, e.fr.localKey(a), SInt), IntN(1)))
						}
					}
				}
			}
			// fall back: any rangeindex stored in the loop whose alloc is outside nested loops
			for b := range e.loop.blocks {
				for _, in := range b.Instrs {
					if s, ok := in.(*ssa.Store); ok {
						if a, ok := s.Addr.(*ssa.Alloc); ok && a.Comment == "rangeindex" && !a.Heap {
							return spec(App(SInt, "+", u.get(e.cur, e.fr.localKey(a), SInt), IntN(1)))
						}
					}
				}
			}
		}
		e.fail("loopi outside an index loop")
	case "outeri":
		// inside a nested loop: the index of the element the enclosing index loop is processing
		// (= the number of its completed iterations)
		if e.loop != nil && e.fr != nil {
			var parent *loopInfo
			for _, li := range e.fr.loops {
				if li != e.loop && li.blocks[e.loop.header] && (parent == nil || len(li.blocks) < len(parent.blocks)) {
					parent = li
				}
			}
			if parent != nil {
				for _, in := range parent.header.Instrs {
					if s, ok := in.(*ssa.Store); ok {
						if a, ok := s.Addr.(*ssa.Alloc); ok && a.Comment == "rangeindex" && !a.Heap {
							return spec(u.get(e.cur, e.fr.localKey(a), SInt))
						}
					}
				}
			}
		}
		e.fail("outeri outside a loop nested in an index loop")
	case "ranged":
		// the slice a "for ... range <slice>" loop iterates over
		if e.loop != nil && e.fr != nil {
			for b := range e.loop.blocks {
				for _, in := range b.Instrs {
					if ia, ok := in.(*ssa.IndexAddr); ok {
						if _, isSl := ia.X.Type().Underlying().(*types.Slice); !isSl {
							continue
						}
						// the index is the loop's incremented rangeindex
						var ld *ssa.UnOp
						switch ix := ia.Index.(type) {
						case *ssa.BinOp:
							ld, _ = ix.X.(*ssa.UnOp)
						case *ssa.UnOp:
							ld = ix
						}
						if ld != nil {
							if a, ok := ld.X.(*ssa.Alloc); ok && a.Comment == "rangeindex" {
								if t, ok := e.fr.vals[ia.X]; ok {
									return Val{T: t, Ty: ia.X.Type()}
								}
							}
						}
					}
				}
			}
		}
		e.fail("ranged outside a slice range loop")
	case "rangekey", "rangeval":
		// the key / value variable of the innermost enclosing range loop, whatever it is called
		if e.loop != nil && e.fr != nil {
			for _, in := range e.loop.header.Instrs {
				if n, ok := in.(*ssa.Next); ok {
					if tup, ok := e.fr.tuples[n]; ok && len(tup) == 3 {
						it := e.fr.iters[n.Iter]
						if it != nil {
							mt := it.mapT.Underlying().(*types.Map)
							if name == "rangekey" {
								return Val{T: tup[1], Ty: mt.Key()}
							}
							return Val{T: tup[2], Ty: mt.Elem()}
						}
					}
				}
			}
			// slice range: element ranged[loopi-1]
			idx := e.evalIdent("loopi")
			i := App(SInt, "-", idx.T, IntN(1))
			if name == "rangekey" {
				return Val{T: i, Ty: types.Typ[types.Int]}
			}
			sl := e.evalIdent("ranged")
			var et types.Type
			if st, ok := sl.Ty.Underlying().(*types.Slice); ok {
				et = st.Elem()
			}
			return Val{T: Select(u.g.reg.SlData(sl.T), i), Ty: et}
		}
		e.fail("%s outside a range loop", name)
	case "visited":
		if e.loop != nil && e.fr != nil {
			if it := e.loopIter(); it != nil {
				ks := keySort(elemSort(u.varSort["MD:"+shortTypeName(it.mapT.Underlying())]))
				_ = ks
				return Val{T: u.get(e.cur, it.visited, u.varSort[it.visited]), isDom: true, KeyTy: it.mapT.Underlying().(*types.Map).Key()}
			}
		}
		e.fail("visited outside a map range loop")
	case "top":
		return spec(u.top(e.cur))
	case "spawned":
		return spec(u.get(e.cur, "G:spawned", SInt))
	case "spawnedFn":
		// the function value of the most recent go statement (-1: a function or closure literal)
		return spec(u.get(e.cur, "G:spawnedFn", SInt))
	case "spawnedArg0":
		// the first argument of the most recent go statement when it is a reference (else 0)
		return spec(u.get(e.cur, "G:spawnedArg0", SInt))
	}
	// named local of the frame (loop invariants, ghost updates)
	if e.fr != nil {
		if a, ok := e.fr.localNames[name]; ok {
			et := a.Type().(*types.Pointer).Elem()
			if !a.Heap {
				k := e.fr.localKey(a)
				ad := &Addr{local: k, valT: et}
				return Val{T: u.get(e.cur, k, u.g.reg.SortOf(et)), Ty: et, Addr: ad}
			}
			if r, ok := e.fr.vals[a]; ok {
				ad := &Addr{ref: r, objT: et, valT: et}
				return Val{T: u.load(e.cur, ad), Ty: et, Addr: ad}
			}
		}
		// free variables of closures, by name
		for fv, ad := range e.fr.freeA {
			if fv.Name() == name {
				return Val{T: u.load(e.cur, ad), Ty: ad.valT, Addr: ad}
			}
		}
		for fv, t := range e.fr.freeT {
			if fv.Name() == name {
				pt := fv.Type().(*types.Pointer).Elem()
				ad := &Addr{ref: t, objT: pt, valT: pt}
				return Val{T: u.load(e.cur, ad), Ty: pt, Addr: ad}
			}
		}
	}
	// ghost snapshot taken at an anchor
	if gv, ok := u.ghostLocals[name]; ok {
		gv.T = u.get(e.cur, "GL:"+name, u.varSort["GL:"+name])
		return gv
	}
	// ghost variable
	if so, ok := u.g.specs.GhostVars[name]; ok {
		s, ty := e.sortOfName(so)
		return Val{T: u.get(e.cur, "G:"+name, s), Ty: ty}
	}
	// package-level constant or variable
	if p := e.pkg(); p != nil {
		if o := p.Scope().Lookup(name); o != nil {
			return e.objVal(o)
		}
	}
	e.fail("unknown identifier %q", name)
	return Val{}
}

// isParamCell: a is the stack cell go/ssa (NaiveForm) spills the parameter of the same name into.
func isParamCell(fn *ssa.Function, a *ssa.Alloc) bool {
	if a.Block() == nil || a.Block().Index != 0 {
		return false
	}
	isParam := false
	for _, p := range fn.Params {
		if p.Name() == a.Comment {
			isParam = true
		}
	}
	if !isParam {
		return false
	}
	// only parameters the function assigns to: for the others the cell always holds the entry value
	stores := 0
	for _, b := range fn.Blocks {
		for _, in := range b.Instrs {
			if st, ok := in.(*ssa.Store); ok && st.Addr == a {
				stores++
			}
		}
	}
	return stores > 1
}

func (e *Env) loopIter() *Iter {
	// the Range instruction feeding the Next in the loop header
	for _, in := range e.loop.header.Instrs {
		if n, ok := in.(*ssa.Next); ok {
			return e.fr.iters[n.Iter]
		}
	}
	return nil
}

func (e *Env) objVal(o types.Object) Val {
	switch o := o.(type) {
	case *types.Const:
		switch o.Val().Kind() {
		case constant.Int:
			return Val{T: IntLit(o.Val().ExactString()), Ty: o.Type()}
		case constant.String:
			return Val{T: e.u.g.reg.StrLit(constant.StringVal(o.Val())), Ty: o.Type()}
		case constant.Bool:
			return Val{T: BoolLit(constant.BoolVal(o.Val())), Ty: o.Type()}
		}
	case *types.Var:
		key := "g:" + o.Pkg().Path() + "." + o.Name()
		so := e.u.g.reg.SortOf(o.Type())
		return Val{T: e.u.get(e.cur, key, so), Ty: o.Type(), Addr: &Addr{global: key, valT: o.Type()}}
	}
	e.fail("cannot use %s in a contract", o)
	return Val{}
}

// typed records that a value read from the heap by a contract is well-typed.
func (e *Env) typed(v Val) Val {
	if v.Ty != nil && !strings.Contains(v.T.S, "q_") {
		e.u.assumeStructural(e.u.typeFacts(e.cur, v.T, v.Ty))
	}
	return v
}

func (e *Env) evalSel(x *ESel) Val {
	u := e.u
	// package-qualified name
	if id, ok := x.X.(*EIdent); ok {
		if _, isVar := e.vars[id.Name]; !isVar {
			known := false
			if e.fr != nil {
				_, known = e.fr.localNames[id.Name]
			}
			if !known {
				if p := e.importNamed(id.Name); p != nil {
					o := p.Scope().Lookup(x.Name)
					if o == nil {
						e.fail("%s.%s not found", id.Name, x.Name)
					}
					return e.objVal(o)
				}
			}
		}
	}
	v := e.eval(x.X)
	if v.Ty == nil {
		e.fail("selector %s on untyped value", x.exprString())
	}
	obj, index, _ := types.LookupFieldOrMethod(v.Ty, true, e.pkg(), x.Name)
	if obj == nil {
		// try with the defining package of the type (unexported fields of other packages)
		if n, ok := derefNamed(v.Ty); ok && n.Obj().Pkg() != nil {
			obj, index, _ = types.LookupFieldOrMethod(v.Ty, true, n.Obj().Pkg(), x.Name)
		}
	}
	fld, ok := obj.(*types.Var)
	if !ok {
		e.fail("%s: no field %s in %s", x.exprString(), x.Name, v.Ty)
	}
	_ = fld
	cur := v
	for _, fi := range index {
		t := cur.Ty
		if pt, ok := t.Underlying().(*types.Pointer); ok {
			st := pt.Elem()
			ft := st.Underlying().(*types.Struct).Field(fi).Type()
			a := (&Addr{ref: cur.T, objT: st, valT: st}).extend(pathElem{field: fi, st: st}, ft)
			cur = e.typed(Val{T: u.load(e.cur, a), Ty: ft, Addr: a})
			continue
		}
		stt, ok := t.Underlying().(*types.Struct)
		if !ok {
			e.fail("field of non-struct %s", t)
		}
		ft := stt.Field(fi).Type()
		if cur.Addr != nil {
			a := cur.Addr.extend(pathElem{field: fi, st: t}, ft)
			cur = Val{T: u.load(e.cur, a), Ty: ft, Addr: a}
		} else {
			si := u.g.reg.structInfoOf(t)
			cur = Val{T: App(si.fsorts[fi], si.fields[fi], cur.T), Ty: ft}
		}
	}
	return cur
}

func derefNamed(t types.Type) (*types.Named, bool) {
	if pt, ok := t.Underlying().(*types.Pointer); ok {
		t = pt.Elem()
	}
	n, ok := types.Unalias(t).(*types.Named)
	return n, ok
}

func (e *Env) coerceNil(a, b Val) (Term, Term) {
	reg := e.u.g.reg
	if a.T.Sort == "Nil" && b.T.Sort == "Nil" {
		return TTrue, TTrue
	}
	if a.T.Sort == "Nil" {
		return reg.ZeroOfSort(b.T.Sort), b.T
	}
	if b.T.Sort == "Nil" {
		return a.T, reg.ZeroOfSort(a.T.Sort)
	}
	return a.T, b.T
}

func (e *Env) evalBinary(x *EBinary) Val {
	switch x.Op {
	case "&&":
		return spec(And(e.evalBool(x.X), e.evalBool(x.Y)))
	case "||":
		return spec(Or(e.evalBool(x.X), e.evalBool(x.Y)))
	case "==>":
		return spec(Implies(e.evalBool(x.X), e.evalBool(x.Y)))
	case "<==>":
		return spec(Eq(e.evalBool(x.X), e.evalBool(x.Y)))
	case "in":
		k := e.eval(x.X)
		s := e.eval(x.Y)
		if !strings.HasPrefix(string(s.T.Sort), "(Array ") {
			e.fail("'in' needs a set on the right: %s", x.Y.exprString())
		}
		return spec(Select(s.T, k.T))
	}
	a := e.eval(x.X)
	b := e.eval(x.Y)
	switch x.Op {
	case "==", "!=":
		at, bt := e.coerceNil(a, b)
		if at.Sort != bt.Sort {
			e.fail("comparison of different sorts in %s: %s vs %s", x.exprString(), at.Sort, bt.Sort)
		}
		var r Term
		if _, ok := e.u.g.reg.slElem[string(at.Sort)]; ok && (a.T.Sort == "Nil" || b.T.Sort == "Nil") {
			other := a.T
			if a.T.Sort == "Nil" {
				other = b.T
			}
			r = Eq(SlLen(other), IntN(0))
		} else {
			r = Eq(at, bt)
		}
		if x.Op == "!=" {
			r = Not(r)
		}
		return spec(r)
	case "<", "<=", ">", ">=":
		return spec(App(SBool, x.Op, a.T, b.T))
	case "+", "-", "*":
		if a.T.Sort == SStr {
			return spec(App(SStr, "strcat", a.T, b.T))
		}
		return spec(App(SInt, x.Op, a.T, b.T))
	case "/":
		return spec(App(SInt, "div", a.T, b.T))
	case "%":
		return spec(App(SInt, "mod", a.T, b.T))
	}
	e.fail("operator %s", x.Op)
	return Val{}
}

func (e *Env) evalIndex(x *EIndex) Val {
	u := e.u
	v := e.eval(x.X)
	i := e.eval(x.I)
	if v.Ty != nil {
		switch t := v.Ty.Underlying().(type) {
		case *types.Map:
			// Go semantics: the zero value when the key is absent (or the map is nil)
			vals := u.mapVals(e.cur, v.Ty, v.T)
			dom := u.mapDom(e.cur, v.Ty, v.T)
			return e.typed(Val{T: Ite(Select(dom, i.T), Select(vals, i.T), u.g.reg.Zero(t.Elem())), Ty: t.Elem()})
		case *types.Slice:
			return Val{T: Select(u.g.reg.SlData(v.T), i.T), Ty: t.Elem()}
		case *types.Array:
			return Val{T: Select(v.T, i.T), Ty: t.Elem()}
		}
	}
	if _, ok := u.g.reg.slElem[string(v.T.Sort)]; ok {
		var et types.Type
		if v.Ty != nil {
			if s, ok := v.Ty.Underlying().(*types.Slice); ok {
				et = s.Elem()
			}
		}
		return Val{T: Select(u.g.reg.SlData(v.T), i.T), Ty: et}
	}
	if strings.HasPrefix(string(v.T.Sort), "(Array ") {
		return Val{T: Select(v.T, i.T)}
	}
	e.fail("cannot index %s", x.X.exprString())
	return Val{}
}

func (e *Env) evalQuant(x *EQuant) Val {
	u := e.u
	if u.loadLog == nil && u.pure == 0 {
		// outermost quantifier: every heap array read under it gets its well-typedness axiom
		u.loadLog = map[string]loadedArr{}
		defer func() {
			log := u.loadLog
			u.loadLog = nil
			for _, k := range sortedKeys(log) {
				u.heapAxiom(e.cur, log[k].key, log[k].arr)
			}
		}()
	}
	env := e
	var decls []string
	var guards []Term
	var pats []string
	var mapV Term
	for _, b := range x.Binders {
		name := u.freshName("q_" + b.Name)
		name = strings.ReplaceAll(name, "!", "_")
		switch b.Kind {
		case "dom", "set":
			m := env.eval(b.A)
			var dom Term
			var kt types.Type
			if m.isDom || m.Ty == nil {
				dom = m.T
				kt = m.KeyTy
			} else {
				mt, ok := m.Ty.Underlying().(*types.Map)
				if !ok {
					e.fail("dom() of non-map %s", b.A.exprString())
				}
				dom = u.mapDom(env.cur, m.Ty, m.T)
				mapV = u.mapVals(env.cur, m.Ty, m.T)
				kt = mt.Key()
			}
			ks := keySort(dom.Sort)
			decls = append(decls, fmt.Sprintf("(%s %s)", name, ks))
			kv := Term{name, ks}
			guards = append(guards, Select(dom, kv))
			if kt != nil {
				if b, isB := kt.Underlying().(*types.Basic); isB && b.Info()&types.IsInteger != 0 {
					// keys of a map are values of its key type
					guards = append(guards, u.typeFacts(env.cur, kv, kt))
				}
			}
			if len(x.Binders) == 1 {
				pats = append(pats, Select(dom, kv).S)
				if mapV.S != "" {
					pats = append(pats, Select(mapV, kv).S)
				}
			}
			env = env.bind(b.Name, Val{T: kv, Ty: kt})
		case "range":
			lo := env.eval(b.A).T
			hi := env.eval(b.B).T
			decls = append(decls, fmt.Sprintf("(%s Int)", name))
			kv := Term{name, SInt}
			guards = append(guards, App(SBool, "<=", lo, kv), App(SBool, "<", kv, hi))
			env = env.bind(b.Name, Val{T: kv})
		case "elems":
			// index binder over a slice: name ranges over elements
			s := env.eval(b.A)
			iname := name + "_i"
			decls = append(decls, fmt.Sprintf("(%s Int)", iname))
			iv := Term{iname, SInt}
			guards = append(guards, App(SBool, "<=", IntN(0), iv), App(SBool, "<", iv, SlLen(s.T)))
			var et types.Type
			if s.Ty != nil {
				et = s.Ty.Underlying().(*types.Slice).Elem()
			}
			env = env.bind(b.Name, Val{T: Select(u.g.reg.SlData(s.T), iv), Ty: et})
		case "type":
			so, ty := env.sortOfName(b.Type)
			decls = append(decls, fmt.Sprintf("(%s %s)", name, so))
			kv := Term{name, so}
			if ty != nil {
				if b, isB := ty.Underlying().(*types.Basic); isB && b.Info()&types.IsInteger != 0 {
					guards = append(guards, u.typeFacts(env.cur, kv, ty))
				}
				if _, isPtr := ty.Underlying().(*types.Pointer); isPtr {
					// quantification over pointers ranges over allocated objects
					guards = append(guards, App(SBool, "<", IntN(0), kv), App(SBool, "<", kv, u.top(env.cur)))
				}
			}
			env = env.bind(b.Name, Val{T: kv, Ty: ty})
		}
	}
	body := env.evalBool(x.Body)
	g := And(guards...)
	var inner Term
	q := "forall"
	if x.Forall {
		inner = Implies(g, body)
	} else {
		q = "exists"
		inner = And(g, body)
	}
	if x.Forall && len(x.Binders) == 1 {
		// triggers: every (select <array not mentioning the bound variable> <bound variable>) in the body
		var name string
		if i := strings.Index(decls[0], " "); i > 0 {
			name = decls[0][1:i]
		}
		ps := u.selectPatterns(inner.S, name)
		_ = pats
		if len(ps) > 0 && len(ps) <= 8 {
			var sb []string
			for _, p := range ps {
				sb = append(sb, ":pattern ("+p+")")
			}
			return spec(Term{fmt.Sprintf("(%s (%s) (! %s %s))", q, strings.Join(decls, " "), inner.S, strings.Join(sb, " ")), SBool})
		}
	}
	return spec(Term{fmt.Sprintf("(%s (%s) %s)", q, strings.Join(decls, " "), inner.S), SBool})
}

func (e *Env) evalCall(x *ECall) Val {
	u := e.u
	reg := u.g.reg
	// method call on a value: inline the real getter
	if sel, ok := x.Fun.(*ESel); ok {
		if id, isId := sel.X.(*EIdent); !(isId && e.isPkgName(id.Name)) {
			return e.evalMethod(sel, x.Args)
		}
	}
	id, ok := x.Fun.(*EIdent)
	if !ok {
		e.fail("call of %s", x.Fun.exprString())
	}
	switch id.Name {
	case "len":
		v := e.eval(x.Args[0])
		if _, ok := reg.slElem[string(v.T.Sort)]; ok {
			return spec(SlLen(v.T))
		}
		if v.T.Sort == SStr {
			return spec(reg.StrLen(v.T))
		}
		if v.isDom || (v.Ty == nil && strings.HasPrefix(string(v.T.Sort), "(Array ")) {
			return spec(reg.Card(v.T))
		}
		if v.Ty != nil {
			if _, ok := v.Ty.Underlying().(*types.Map); ok {
				dom := u.mapDom(e.cur, v.Ty, v.T)
				return spec(reg.Card(dom))
			}
		}
		e.fail("len of %s", x.Args[0].exprString())
	case "dom":
		v := e.eval(x.Args[0])
		if v.Ty == nil {
			e.fail("dom of untyped value")
		}
		d := u.mapDom(e.cur, v.Ty, v.T)
		// the nil map has an empty domain
		return Val{T: d, isDom: true, KeyTy: v.Ty.Underlying().(*types.Map).Key()}
	case "vals":
		// vals(m): the key -> value array of map m (meaningful at keys in dom(m))
		v := e.eval(x.Args[0])
		if v.Ty == nil {
			e.fail("vals of untyped value")
		}
		return Val{T: u.mapVals(e.cur, v.Ty, v.T)}
	case "zeroexcept":
		// zeroexcept(p, f1, f2, ...): every field of the struct p points to, other than the named
		// ones, holds its zero value ("and nothing else is set")
		v := e.eval(x.Args[0])
		pt, ok := v.Ty.Underlying().(*types.Pointer)
		if !ok {
			e.fail("zeroexcept wants a pointer to a struct")
		}
		stt, ok := pt.Elem().Underlying().(*types.Struct)
		if !ok {
			e.fail("zeroexcept wants a pointer to a struct")
		}
		skip := map[string]bool{}
		for _, a := range x.Args[1:] {
			id, ok := a.(*EIdent)
			if !ok {
				e.fail("zeroexcept: field names expected")
			}
			found := false
			for i := 0; i < stt.NumFields(); i++ {
				if stt.Field(i).Name() == id.Name {
					found = true
				}
			}
			if !found {
				e.fail("zeroexcept: %s has no field %s", pt.Elem(), id.Name)
			}
			skip[id.Name] = true
		}
		var cs []Term
		for i := 0; i < stt.NumFields(); i++ {
			f := stt.Field(i)
			if skip[f.Name()] {
				continue
			}
			a := (&Addr{ref: v.T, objT: pt.Elem(), valT: pt.Elem()}).extend(pathElem{field: i, st: pt.Elem()}, f.Type())
			cs = append(cs, Eq(u.load(e.cur, a), reg.Zero(f.Type())))
		}
		return spec(And(cs...))
	case "closureof", "captured":
		// closureof(f, "Outer$1"): the func value f was made from that function's code;
		// captured(f, "Outer$1", "name"): the value of its captured variable
		v := e.eval(x.Args[0])
		lit, ok := x.Args[1].(*ELit)
		if !ok || lit.Kind != "string" {
			e.fail("%s wants a quoted function name", id.Name)
		}
		fname := strings.Trim(lit.Val, `"`)
		reg.DeclFun("fncode", []Sort{SInt}, SInt)
		if id.Name == "closureof" {
			return spec(Eq(fnCode(v.T), IntN(fnCodeID(e.pkgPath, fname))))
		}
		fn := u.g.closureFn(e.pkgPath, fname)
		if fn == nil {
			e.fail("captured: no closure of %s.%s is made in the program", e.pkgPath, fname)
		}
		vl, ok := x.Args[2].(*ELit)
		if !ok {
			e.fail("captured wants a quoted variable name")
		}
		vn := strings.Trim(vl.Val, `"`)
		for i, fv := range fn.FreeVars {
			if fv.Name() == vn {
				t, ty := u.fnEnv(fn, i, v.T)
				return Val{T: t, Ty: ty}
			}
		}
		e.fail("captured: %s has no captured variable %s", fname, vn)
	case "fresh":
		v := e.eval(x.Args[0])
		return spec(And(App(SBool, ">=", v.T, u.top(e.old)), App(SBool, "<", v.T, u.top(e.cur))))
	case "allocated":
		v := e.eval(x.Args[0])
		return spec(And(App(SBool, "<", IntN(0), v.T), App(SBool, "<", v.T, u.top(e.cur))))
	case "sent":
		v := e.eval(x.Args[0])
		ct, ok := v.Ty.Underlying().(*types.Chan)
		if !ok {
			e.fail("sent() of non-channel")
		}
		dk, lk, ds, ls := u.sentKeys(v.Ty)
		so := reg.SliceSort(reg.SortOf(ct.Elem()))
		// the number of messages sent on a channel is a length: never negative
		if !strings.Contains(v.T.S, "q_") {
			u.assumeStructural(App(SBool, "<=", IntN(0), Select(u.get(e.cur, lk, ls), v.T)))
		}
		return Val{T: MkSlice(so, Select(u.get(e.cur, dk, ds), v.T), Select(u.get(e.cur, lk, ls), v.T)), Ty: types.NewSlice(ct.Elem())}
	case "recvd":
		v := e.eval(x.Args[0])
		if _, ok := v.Ty.Underlying().(*types.Chan); !ok {
			e.fail("recvd() of non-channel")
		}
		rk, rs := u.recvKey(v.Ty)
		return spec(Select(u.get(e.cur, rk, rs), v.T))
	case "held":
		lk, ref := e.evalMutex(x.Args[0])
		return spec(Select(u.get(e.cur, lk, ArraySort(SInt, SInt)), ref))
	case "alldeferred":
		// alldeferred(Type.mutex): every mutex of that kind this call chain holds has its unlock deferred
		sel, ok := x.Args[0].(*ESel)
		if !ok {
			e.fail("alldeferred wants Type.mutex")
		}
		t := e.resolveType(sel.X.exprString())
		lk, so := u.lockKey(t, sel.Name)
		larr := u.get(e.cur, lk, so)
		darr := u.get(e.cur, "DU:"+lk, ArraySort(SInt, SBool))
		return spec(Term{fmt.Sprintf("(forall ((lr Int)) (! (=> (not (= (select %s lr) 0)) (select %s lr)) :pattern ((select %s lr))))", larr.S, darr.S, larr.S), SBool})
	case "onlyfresh":
		// onlyfresh(): every heap object that existed when the unit was entered is unchanged
		// (only objects allocated by this call have been written)
		var cs []Term
		top0 := u.top0
		for _, k := range sortedKeys(e.cur.vars) {
			pfx := ""
			if i := strings.Index(k, ":"); i >= 0 {
				pfx = k[:i+1]
			}
			switch pfx {
			case "H:", "C:", "MD:", "MV:":
			default:
				continue
			}
			cur := e.cur.vars[k]
			ini := u.get(e.old, k, u.varSort[k])
			if cur.S == ini.S || !keySortIsInt(cur.Sort) {
				continue
			}
			cs = append(cs, Term{fmt.Sprintf("(forall ((of_r Int)) (! (=> (and (< 0 of_r) (< of_r %s)) (= (select %s of_r) (select %s of_r))) :pattern ((select %s of_r))))", top0.S, cur.S, ini.S, cur.S), SBool})
		}
		return spec(And(cs...))
	case "nolocks":
		// nolocks(Type.mutex): this call chain holds no mutex of that kind
		sel, ok := x.Args[0].(*ESel)
		if !ok {
			e.fail("nolocks wants Type.mutex")
		}
		t := e.resolveType(sel.X.exprString())
		lk, so := u.lockKey(t, sel.Name)
		return spec(Eq(u.get(e.cur, lk, so), ConstArray(so, IntN(0))))
	case "istype":
		v := e.eval(x.Args[0])
		t := e.resolveType(x.Args[1].exprString())
		return spec(Eq(App(SInt, "itag", v.T), IntN(int64(reg.TypeTag(t)))))
	case "isnil":
		v := e.eval(x.Args[0])
		return spec(Eq(v.T, reg.ZeroOfSort(v.T.Sort)))
	case "ite":
		c := e.evalBool(x.Args[0])
		a := e.eval(x.Args[1])
		b := e.eval(x.Args[2])
		at, bt := e.coerceNil(a, b)
		return Val{T: Ite(c, at, bt), Ty: a.Ty}
	case "u128":
		hi := e.eval(x.Args[0]).T
		lo := e.eval(x.Args[1]).T
		return spec(App(SInt, "+", App(SInt, "*", hi, IntLit("18446744073709551616")), lo))
	case "int":
		return spec(e.eval(x.Args[0]).T)
	case "payload":
		v := e.eval(x.Args[0])
		return spec(App(SInt, "ipay", v.T))
	case "tagof":
		v := e.eval(x.Args[0])
		return spec(App(SInt, "itag", v.T))
	case "boxed":
		// boxed(T, v): the interface value holding v with dynamic type T
		t := e.resolveType(x.Args[0].exprString())
		v := e.eval(x.Args[1])
		return Val{T: reg.MkIface(t, v.T)}
	case "emptyset":
		so, _ := e.sortOfName(x.Args[0].exprString())
		return Val{T: ConstArray(ArraySort(so, SBool), TFalse), isDom: true}
	case "add":
		s := e.eval(x.Args[0])
		k := e.eval(x.Args[1])
		return Val{T: Store(s.T, k.T, TTrue), isDom: true, KeyTy: s.KeyTy}
	case "remove":
		s := e.eval(x.Args[0])
		k := e.eval(x.Args[1])
		return Val{T: Store(s.T, k.T, TFalse), isDom: true, KeyTy: s.KeyTy}
	case "store":
		s := e.eval(x.Args[0])
		k := e.eval(x.Args[1])
		v := e.eval(x.Args[2])
		return Val{T: Store(s.T, k.T, v.T)}
	}
	if p, ok := u.g.specs.Preds[id.Name]; ok {
		if len(p.Params) != len(x.Args) {
			e.fail("pred %s wants %d arguments", p.Name, len(p.Params))
		}
		if e.depth > 12 {
			e.fail("pred recursion too deep at %s", p.Name)
		}
		n := &Env{u: u, vars: map[string]Val{}, cur: e.cur, old: e.old, pkgPath: e.pkgPath, fr: e.fr, loop: e.loop, depth: e.depth + 1, atAnchor: e.atAnchor}
		if p.Pkg != "" {
			n.pkgPath = p.Pkg
		}
		for i, prm := range p.Params {
			v := e.eval(x.Args[i])
			switch prm.Type {
			case "Int", "Bool", "Str", "IntSet", "StrSet", "Set", "Iface":
			default:
				pe := &Env{u: u, pkgPath: n.pkgPath}
				v.Ty = pe.resolveType(prm.Type)
				if v.T.Sort == "Nil" {
					v.T = reg.Zero(v.Ty)
				}
			}
			n.vars[prm.Name] = v
		}
		return n.eval(p.Body)
	}
	if g, ok := u.g.specs.GhostFns[id.Name]; ok {
		var args []Term
		var sorts []Sort
		for i, a := range x.Args {
			v := e.eval(a)
			so, _ := e.sortOfName(g.Args[i])
			if v.T.Sort == "Nil" {
				v.T = reg.ZeroOfSort(so)
			}
			if v.T.Sort != so {
				e.fail("ghostfn %s argument %d has sort %s, want %s", g.Name, i, v.T.Sort, so)
			}
			args = append(args, v.T)
			sorts = append(sorts, so)
		}
		rs, rt := e.sortOfName(g.Res)
		reg.DeclFun("gf_"+g.Name, sorts, rs)
		if len(args) == 0 {
			return Val{T: Term{"gf_" + g.Name, rs}, Ty: rt}
		}
		return Val{T: App(rs, "gf_"+g.Name, args...), Ty: rt}
	}
	e.fail("unknown function %s", id.Name)
	return Val{}
}

func (e *Env) isPkgName(name string) bool {
	if _, ok := e.vars[name]; ok {
		return false
	}
	if e.fr != nil {
		if _, ok := e.fr.localNames[name]; ok {
			return false
		}
	}
	return e.importNamed(name) != nil
}

// evalMethod inlines a (pure, loop-free) method such as a generated getter.
func (e *Env) evalMethod(sel *ESel, args []Expr) Val {
	u := e.u
	recv := e.eval(sel.X)
	if recv.Ty == nil {
		e.fail("method call on untyped value %s", sel.exprString())
	}
	ms := u.g.prog.MethodSets.MethodSet(recv.Ty)
	var m *types.Selection
	for i := 0; i < ms.Len(); i++ {
		if ms.At(i).Obj().Name() == sel.Name {
			m = ms.At(i)
		}
	}
	if m == nil {
		e.fail("no method %s on %s", sel.Name, recv.Ty)
	}
	fn := u.g.prog.MethodValue(m)
	if fn == nil || fn.Blocks == nil {
		e.fail("method %s has no body", sel.Name)
	}
	if hasLoops(fn) {
		e.fail("method %s has loops; cannot be used in a contract", sel.Name)
	}
	nf := u.newFrame(fn, 1)
	nf.localNames = map[string]*ssa.Alloc{}
	nf.env = e
	nf.vals[fn.Params[0]] = recv.T
	for i, a := range args {
		nf.vals[fn.Params[i+1]] = e.eval(a).T
	}
	// pure evaluation on a scratch copy of the state; safety obligations inside are dropped
	st := e.cur.clone()
	u.dry++
	u.pure++
	nObs := len(u.obs)
	savedPos := u.curPos
	exits := func() []exit {
		defer func() { u.dry--; u.pure--; u.curPos = savedPos }()
		return u.execRegion(nf, fn.Blocks[0], nil, st, nil)
	}()
	u.obs = u.obs[:nObs]
	if len(exits) == 0 {
		e.fail("method %s never returns", sel.Name)
	}
	t := exits[len(exits)-1].results[0]
	for j := len(exits) - 2; j >= 0; j-- {
		t = Ite(exits[j].st.reach, exits[j].results[0], t)
	}
	// reach of exits is relative to e.cur.reach; strip by substituting: the exits' reach terms are
	// conjunctions including cur.reach, which is fine under the obligation's own reach guard.
	return Val{T: t, Ty: fn.Signature.Results().At(0).Type()}
}

// ---------------------------------------------------------------------------
// locations (assigns clauses, frame checks)

type loc struct {
	key    string
	sort   Sort
	whole  bool  // the entire array / variable
	ref    *Term // index in the array
	sub    *Term // key within a map entry array
	text   string
	region string
}

func (e *Env) evalLoc(x Expr) []loc {
	u := e.u
	switch x := x.(type) {
	case *EIdent:
		if _, ok := u.g.specs.Regions[x.Name]; ok {
			return []loc{{region: x.Name, text: x.Name}}
		}
		if so, ok := u.g.specs.GhostVars[x.Name]; ok {
			s, _ := e.sortOfName(so)
			return []loc{{key: "G:" + x.Name, sort: s, whole: true, text: x.Name}}
		}
		if x.Name == "spawned" {
			return []loc{{key: "G:spawned", sort: SInt, whole: true, text: x.Name}, {key: "G:spawnedFn", sort: SInt, whole: true, text: x.Name}, {key: "G:spawnedArg0", sort: SInt, whole: true, text: x.Name}}
		}
		if x.Name == "recvdAll" {
			// receives on any channel (used where the channel is not nameable, e.g. ctx.Done())
			return []loc{{key: "RV:all", sort: ArraySort(SInt, SInt), whole: true, text: x.Name}}
		}
	case *ECall:
		if id, ok := x.Fun.(*EIdent); ok {
			switch id.Name {
			case "sent":
				v := e.eval(x.Args[0])
				dk, lk, ds, ls := u.sentKeys(v.Ty)
				r := v.T
				return []loc{{key: dk, sort: ds, ref: &r, text: x.exprString()}, {key: lk, sort: ls, ref: &r, text: x.exprString()}}
			case "recvd":
				v := e.eval(x.Args[0])
				rk, rs := u.recvKey(v.Ty)
				r := v.T
				return []loc{{key: rk, sort: rs, ref: &r, text: x.exprString()}}
			case "all":
				// all(Type.field): the field of every object
				sel, ok := x.Args[0].(*ESel)
				if !ok {
					e.fail("all() wants Type.field")
				}
				t := e.resolveType(sel.X.exprString())
				st := t.Underlying().(*types.Struct)
				for i := 0; i < st.NumFields(); i++ {
					if st.Field(i).Name() == sel.Name {
						k, so := u.fieldKey(t, i)
						return []loc{{key: k, sort: so, whole: true, text: x.exprString()}}
					}
				}
				e.fail("no field %s", sel.Name)
			case "allmaps":
				// allmaps(T): contents of every map of type T (named map type or field type expression)
				v := e.resolveMapType(x.Args[0])
				dk, vk, ds, vs := u.mapKeys(v)
				return []loc{{key: dk, sort: ds, whole: true, text: x.exprString()}, {key: vk, sort: vs, whole: true, text: x.exprString()}}
			case "contents":
				// contents(m): all entries of map m
				v := e.eval(x.Args[0])
				dk, vk, ds, vs := u.mapKeys(v.Ty)
				r := v.T
				return []loc{{key: dk, sort: ds, ref: &r, text: x.exprString()}, {key: vk, sort: vs, ref: &r, text: x.exprString()}}
			}
			if p, ok := u.g.specs.Preds[id.Name]; ok && strings.HasPrefix(p.Name, "locs_") {
				_ = p
			}
		}
	case *EIndex:
		m := e.eval(x.X)
		if m.Ty != nil {
			if _, ok := m.Ty.Underlying().(*types.Map); ok {
				k := e.eval(x.I)
				dk, vk, ds, vs := u.mapKeys(m.Ty)
				r, kk := m.T, k.T
				return []loc{{key: dk, sort: ds, ref: &r, sub: &kk, text: x.exprString()}, {key: vk, sort: vs, ref: &r, sub: &kk, text: x.exprString()}}
			}
		}
	case *ESel:
		v := e.evalSel(x)
		if v.Addr != nil && v.Addr.local == "" && v.Addr.slice == nil {
			return e.addrLoc(v.Addr, x.exprString())
		}
	case *EUnary:
		if x.Op == "*" {
			v := e.eval(x)
			if v.Addr != nil {
				return e.addrLoc(v.Addr, x.exprString())
			}
		}
	}
	e.fail("not a location: %s", x.exprString())
	return nil
}

func (e *Env) resolveMapType(x Expr) types.Type {
	// Type.field naming a map-typed field
	if sel, ok := x.(*ESel); ok {
		t := e.resolveType(sel.X.exprString())
		st := t.Underlying().(*types.Struct)
		for i := 0; i < st.NumFields(); i++ {
			if st.Field(i).Name() == sel.Name {
				return st.Field(i).Type()
			}
		}
	}
	return e.resolveType(x.exprString())
}

func (e *Env) addrLoc(a *Addr, text string) []loc {
	u := e.u
	if a.global != "" {
		return []loc{{key: a.global, sort: u.varSort[a.global], whole: true, text: text}}
	}
	r := a.ref
	if isStructT(a.objT) {
		if len(a.path) == 0 {
			var out []loc
			st := a.objT.Underlying().(*types.Struct)
			for i := 0; i < st.NumFields(); i++ {
				k, so := u.fieldKey(a.objT, i)
				out = append(out, loc{key: k, sort: so, ref: &r, text: text})
			}
			return out
		}
		k, so := u.fieldKey(a.objT, a.path[0].field)
		return []loc{{key: k, sort: so, ref: &r, text: text}}
	}
	k, so := u.cellKey(a.objT)
	return []loc{{key: k, sort: so, ref: &r, text: text}}
}

func (e *Env) evalMutex(x Expr) (string, Term) {
	sel, ok := x.(*ESel)
	if !ok {
		e.fail("mutex expression must be a field selector: %s", x.exprString())
	}
	base := e.eval(sel.X)
	pt, ok := base.Ty.Underlying().(*types.Pointer)
	if !ok {
		e.fail("mutex owner must be a pointer: %s", sel.X.exprString())
	}
	lk, _ := e.u.lockKey(pt.Elem(), sel.Name)
	return lk, base.T
}

// selectPatterns returns the distinct sub-terms "(select A v)" of body where A does not mention v.
func (u *UnitGen) selectPatterns(body, v string) []string {
	var out []string
	seen := map[string]bool{}
	const pfx = "(select "
	for i := 0; i+len(pfx) < len(body); i++ {
		if !strings.HasPrefix(body[i:], pfx) {
			continue
		}
		// parse the array argument
		j := i + len(pfx)
		arr := firstSexp(body[j:])
		k := j + len(arr)
		if k >= len(body) || body[k] != ' ' {
			continue
		}
		idx := firstSexp(body[k+1:])
		if idx != v {
			continue
		}
		if containsToken(arr, v) {
			continue
		}
		if !u.patternSafe(arr) {
			continue
		}
		end := k + 1 + len(idx)
		if end >= len(body) || body[end] != ')' {
			continue
		}
		t := body[i : end+1]
		if !seen[t] {
			seen[t] = true
			out = append(out, t)
		}
	}
	return out
}

func containsToken(s, tok string) bool {
	for _, f := range strings.FieldsFunc(s, func(r rune) bool { return r == ' ' || r == '(' || r == ')' }) {
		if f == tok {
			return true
		}
	}
	return false
}

// patternSafe: the term, after expansion of defined names, contains only applications that may
// occur in a trigger (no boolean connectives, ite, arithmetic or quantifiers).
func (u *UnitGen) patternSafe(t string) bool {
	for _, op := range []string{"(not ", "(or ", "(and ", "(=> ", "(= ", "(ite ", "(< ", "(<= ", "(> ", "(>= ", "(+ ", "(- ", "(* ", "(distinct ", "(forall ", "(exists ", "(mod ", "(div "} {
		if strings.Contains(t, op) {
			return false
		}
	}
	for _, tok := range strings.FieldsFunc(t, func(r rune) bool { return r == ' ' || r == '(' || r == ')' }) {
		def, ok := u.defs[tok]
		if !ok {
			continue
		}
		if u.patSafe == nil {
			u.patSafe = map[string]bool{}
		}
		safe, seen := u.patSafe[tok]
		if !seen {
			u.patSafe[tok] = false // cycle guard
			safe = u.patternSafe(def)
			u.patSafe[tok] = safe
		}
		if !safe {
			return false
		}
	}
	return true
}
