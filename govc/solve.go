package main

import (
	"bytes"
	"context"
	"fmt"
	"os"
	"os/exec"
	"path/filepath"
	"strings"
	"sync"
	"time"
)

type SolverCfg struct {
	QuickMs    int
	FallbackMs int
	WorkDir    string
	Cross      bool // thorough: second solver must agree on ensures
}

type solverSpec struct {
	name string
	argv func(file string, ms int) []string
}

var solvers = []solverSpec{
	{"z3-5.1.0", func(f string, ms int) []string { return []string{"z3-new", fmt.Sprintf("-t:%d", ms), f} }},
	{"z3-4.8.12", func(f string, ms int) []string { return []string{"z3", fmt.Sprintf("-t:%d", ms), f} }},
	{"cvc5-1.0.3", func(f string, ms int) []string {
		return []string{"cvc5", "--incremental", fmt.Sprintf("--tlimit-per=%d", ms), f}
	}},
}

func runSolver(s solverSpec, file string, ms int, hardMs int) (string, error) {
	ctx, cancel := context.WithTimeout(context.Background(), time.Duration(hardMs)*time.Millisecond)
	defer cancel()
	argv := s.argv(file, ms)
	cmd := exec.CommandContext(ctx, argv[0], argv[1:]...)
	var out bytes.Buffer
	cmd.Stdout = &out
	cmd.Stderr = &out
	err := cmd.Run()
	if ctx.Err() != nil {
		return out.String(), fmt.Errorf("timeout")
	}
	// z3 4.8 exits 1 on get-model after unsat; ignore exit codes
	_ = err
	return out.String(), nil
}

// SolveUnit discharges the obligations of a unit.
func SolveUnit(r *UnitResult, cfg SolverCfg) {
	if r.Unsupported != "" || len(r.Obs) == 0 {
		return
	}
	script, order := r.IncrementalScript()
	dir := filepath.Join(cfg.WorkDir, mangle(r.Unit))
	os.MkdirAll(dir, 0o755)
	file := filepath.Join(dir, "unit.smt2")
	os.WriteFile(file, []byte(script), 0o644)
	start := time.Now()
	out, err := runSolver(solvers[0], file, cfg.QuickMs, cfg.QuickMs*(len(order)+2)+10000)
	el := time.Since(start).Milliseconds()
	lines := strings.Split(out, "\n")
	var results []string
	var errs []string
	for _, l := range lines {
		l = strings.TrimSpace(l)
		switch l {
		case "sat", "unsat", "unknown", "timeout":
			results = append(results, l)
		default:
			if strings.HasPrefix(l, "(error") {
				errs = append(errs, l)
			}
		}
	}
	_ = err
	per := int64(0)
	if len(order) > 0 {
		per = el / int64(len(order))
	}
	for i, ob := range order {
		res := "unknown"
		if i < len(results) {
			res = results[i]
		}
		if len(errs) > 0 {
			res = "error"
			ob.Detail = strings.Join(errs, "; ")
			if len(ob.Detail) > 600 {
				ob.Detail = ob.Detail[:600]
			}
		}
		ob.Result = res
		ob.Backend = solvers[0].name + " (incremental)"
		ob.Ms = per
	}
	// fallback / cross-check
	var wg sync.WaitGroup
	sem := make(chan struct{}, 6)
	for _, ob := range order {
		need := false
		if ob.Cover {
			need = ob.Result != "sat" && ob.Result != "unsat"
		} else {
			need = ob.Result != "unsat"
		}
		if !need && !(cfg.Cross && ob.Kind == "ensures") {
			continue
		}
		wg.Add(1)
		go func(ob *Obligation) {
			defer wg.Done()
			sem <- struct{}{}
			defer func() { <-sem }()
			standalone(r, ob, cfg, dir)
		}(ob)
	}
	wg.Wait()
}

func standalone(r *UnitResult, ob *Obligation, cfg SolverCfg, dir string) {
	q := r.QueryFor(ob, !ob.Cover)
	file := filepath.Join(dir, mangle(ob.Name)+".smt2")
	os.WriteFile(file, []byte(q), 0o644)
	type res struct {
		solver string
		out    string
		first  string
		ms     int64
	}
	ch := make(chan res, len(solvers))
	for _, s := range solvers {
		go func(s solverSpec) {
			t0 := time.Now()
			out, err := runSolver(s, file, cfg.FallbackMs, cfg.FallbackMs+5000)
			first := "unknown"
			for _, l := range strings.Split(out, "\n") {
				l = strings.TrimSpace(l)
				if l == "sat" || l == "unsat" || l == "unknown" || l == "timeout" {
					first = l
					break
				}
				if strings.HasPrefix(l, "(error") {
					first = "error"
					break
				}
			}
			if err != nil {
				first = "timeout"
			}
			ch <- res{s.name, out, first, time.Since(t0).Milliseconds()}
		}(s)
	}
	wasUnsat := ob.Result == "unsat"
	var all []res
	for range solvers {
		all = append(all, <-ch)
	}
	want := "unsat"
	if ob.Cover {
		want = "sat"
	}
	agree := 0
	for _, x := range all {
		if x.first == want {
			agree++
		}
	}
	if wasUnsat {
		// cross-check mode
		for _, x := range all {
			if x.first == "sat" {
				ob.Result = "sat"
				ob.Backend = x.solver + " (disagrees with incremental run)"
				ob.Model = trimModel(x.out)
				return
			}
		}
		ob.Detail = fmt.Sprintf("cross-check: %d/%d solvers agree on unsat", agree, len(all))
		return
	}
	for _, x := range all {
		if x.first == want {
			ob.Result = want
			ob.Backend = x.solver
			ob.Ms = x.ms
			return
		}
	}
	// not discharged: prefer a model
	for _, x := range all {
		if x.first == "sat" || (ob.Cover && x.first == "unsat") {
			ob.Result = x.first
			ob.Backend = x.solver
			ob.Ms = x.ms
			ob.Model = trimModel(x.out)
			return
		}
	}
	ob.Result = all[0].first
	ob.Backend = "z3-5.1.0, z3-4.8.12, cvc5-1.0.3"
	var ds []string
	for _, x := range all {
		ds = append(ds, x.solver+": "+x.first)
	}
	ob.Detail = strings.Join(ds, "; ")
}

func trimModel(out string) string {
	if len(out) > 200000 {
		return out[:200000]
	}
	return out
}
