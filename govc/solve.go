package main

import (
	"bufio"
	"bytes"
	"context"
	"crypto/sha256"
	"encoding/hex"
	"encoding/json"
	"fmt"
	"os"
	"os/exec"
	"path/filepath"
	"runtime"
	"strings"
	"sync"
	"sync/atomic"
	"time"
)

type SolverCfg struct {
	QuickMs    int
	FallbackMs int
	WorkDir    string
	Cross      bool // thorough: second solver must agree on ensures
}

type solverSpec struct {
	name string
	argv func(file string, ms int) []string
}

var solvers = []solverSpec{
	{"z3-5.1.0", func(f string, ms int) []string { return []string{"z3-new", fmt.Sprintf("-t:%d", ms), f} }},
	{"z3-4.8.12", func(f string, ms int) []string { return []string{"z3", fmt.Sprintf("-t:%d", ms), f} }},
	{"cvc5-1.0.3", func(f string, ms int) []string {
		return []string{"cvc5", "--incremental", fmt.Sprintf("--tlimit-per=%d", ms), f}
	}},
	// two more configurations of z3 5.1.0 for the standalone race: quantifier-heavy goals are unstable across
	// configurations (one proves in a second what another does not prove in twenty), so diversity is what makes a
	// pass robust; a definite answer of any configuration decides the race
	{"z3-5.1.0/ematch", func(f string, ms int) []string {
		return []string{"z3-new", fmt.Sprintf("-t:%d", ms), "smt.auto_config=false", "smt.mbqi=false", "smt.qi.eager_threshold=100", f}
	}},
	{"z3-5.1.0/arith2", func(f string, ms int) []string {
		return []string{"z3-new", fmt.Sprintf("-t:%d", ms), "smt.arith.solver=2", f}
	}},
}

type cachedRun struct {
	Results []string `json:"results"`
	Times   []int64  `json:"times"`
	Errs    []string `json:"errs"`
	Out     string   `json:"out,omitempty"`
}

// cacheDir holds solver answers keyed by the SHA-256 of the exact query text, solver and time
// limit. Identical queries (the same unit shared by several properties, or an unchanged unit
// on a later run) are answered from it; any change to the code or a contract changes the text.
func cacheDir() string {
	if os.Getenv("GOVC_NOCACHE") != "" {
		return ""
	}
	d := os.Getenv("GOVC_CACHE")
	if d == "" {
		d = "/verif/.cache"
	}
	if os.MkdirAll(d, 0o755) != nil {
		return ""
	}
	return d
}

func cacheKey(solver string, ms int, file string) string {
	data, err := os.ReadFile(file)
	if err != nil {
		return ""
	}
	h := sha256.New()
	fmt.Fprintf(h, "%s|%d|", solver, ms)
	h.Write(data)
	return hex.EncodeToString(h.Sum(nil))
}

func cacheGet(key string) *cachedRun {
	d := cacheDir()
	if d == "" || key == "" {
		return nil
	}
	data, err := os.ReadFile(filepath.Join(d, key+".json"))
	if err != nil {
		return nil
	}
	var c cachedRun
	if json.Unmarshal(data, &c) != nil {
		return nil
	}
	return &c
}

func cachePut(key string, c *cachedRun) {
	d := cacheDir()
	if d == "" || key == "" {
		return
	}
	data, _ := json.Marshal(c)
	tmp := filepath.Join(d, key+".tmp")
	if os.WriteFile(tmp, data, 0o644) == nil {
		os.Rename(tmp, filepath.Join(d, key+".json"))
	}
}

// procSem bounds the number of solver processes this run has alive at any time (one per CPU): more would only make
// each of them slower and turn wall-clock budgets into timeouts.
var procSem = make(chan struct{}, maxInt(4, runtime.NumCPU()))

func maxInt(a, b int) int {
	if a > b {
		return a
	}
	return b
}

// runSolverTimed streams the solver's stdout and records when each result line arrived.
func runSolverTimed(s solverSpec, file string, ms int, hardMs int) ([]string, []int64, []string, error) {
	key := cacheKey(s.name, ms, file)
	if c := cacheGet(key); c != nil {
		atomic.AddInt64(&cacheHits, 1)
		return c.Results, c.Times, c.Errs, nil
	}
	r, t, e, err := runSolverTimedNoCache(s, file, ms, hardMs)
	if err == nil {
		// (an "unknown" here is harmless to remember: it only sends the obligation to the
		// standalone race, whose indefinite answers are never cached)
		cachePut(key, &cachedRun{Results: r, Times: t, Errs: e})
	}
	return r, t, e, err
}

var cacheHits int64

func runSolverTimedNoCache(s solverSpec, file string, ms int, hardMs int) ([]string, []int64, []string, error) {
	procSem <- struct{}{}
	defer func() { <-procSem }()
	ctx, cancel := context.WithTimeout(context.Background(), time.Duration(hardMs)*time.Millisecond)
	defer cancel()
	argv := s.argv(file, ms)
	cmd := exec.CommandContext(ctx, argv[0], argv[1:]...)
	pipe, err := cmd.StdoutPipe()
	if err != nil {
		return nil, nil, nil, err
	}
	cmd.Stderr = cmd.Stdout
	if err := cmd.Start(); err != nil {
		return nil, nil, nil, err
	}
	var results []string
	var times []int64
	var errs []string
	sc := bufio.NewScanner(pipe)
	sc.Buffer(make([]byte, 1<<20), 1<<26)
	last := time.Now()
	for sc.Scan() {
		l := strings.TrimSpace(sc.Text())
		switch l {
		case "sat", "unsat", "unknown", "timeout":
			now := time.Now()
			results = append(results, l)
			times = append(times, now.Sub(last).Milliseconds())
			last = now
		default:
			if strings.HasPrefix(l, "(error") {
				errs = append(errs, l)
			}
		}
	}
	cmd.Wait()
	if ctx.Err() != nil {
		return results, times, errs, fmt.Errorf("timeout")
	}
	return results, times, errs, nil
}

func runSolver(s solverSpec, file string, ms int, hardMs int) (string, error) {
	return runSolverCtx(context.Background(), s, file, ms, hardMs)
}

func runSolverCtx(parent context.Context, s solverSpec, file string, ms int, hardMs int) (string, error) {
	key := cacheKey(s.name+"|standalone", ms, file)
	if c := cacheGet(key); c != nil {
		atomic.AddInt64(&cacheHits, 1)
		return c.Out, nil
	}
	out, err := runSolverCtxNoCache(parent, s, file, ms, hardMs)
	if err == nil && parent.Err() == nil {
		first := strings.TrimSpace(strings.SplitN(out, "\n", 2)[0])
		if first == "sat" || first == "unsat" {
			cachePut(key, &cachedRun{Out: out})
		}
	}
	return out, err
}

func runSolverCtxNoCache(parent context.Context, s solverSpec, file string, ms int, hardMs int) (string, error) {
	select {
	case procSem <- struct{}{}:
	case <-parent.Done():
		return "", fmt.Errorf("cancelled")
	}
	defer func() { <-procSem }()
	// The budget of a standalone run is CPU time (ulimit -t), so that a loaded machine makes the run slower but not
	// fail; the solver's own soft timeout and the hard wall-clock limit are eight times the budget.
	cpuS := (ms + 999) / 1000
	wall := 8 * ms
	ctx, cancel := context.WithTimeout(parent, time.Duration(wall+hardMs-ms)*time.Millisecond)
	defer cancel()
	argv := s.argv(file, wall)
	sh := fmt.Sprintf("ulimit -t %d; exec \"$@\"", cpuS)
	cmd := exec.CommandContext(ctx, "bash", append([]string{"-c", sh, "solver"}, argv...)...)
	var out bytes.Buffer
	cmd.Stdout = &out
	cmd.Stderr = &out
	err := cmd.Run()
	if ctx.Err() != nil {
		return out.String(), fmt.Errorf("timeout")
	}
	// z3 4.8 exits 1 on get-model after unsat; ignore exit codes
	_ = err
	return out.String(), nil
}

// SolveUnit discharges the obligations of a unit.
func SolveUnit(r *UnitResult, cfg SolverCfg) {
	if r.Unsupported != "" || len(r.Obs) == 0 || os.Getenv("GOVC_NOSOLVE") != "" {
		return
	}
	var order []*Obligation
	runs := append([]int{0}, r.ModularCuts()...)
	type runRes struct {
		order   []*Obligation
		results []string
		times   []int64
		errs    []string
	}
	rr := make([]runRes, len(runs))
	var rwg sync.WaitGroup
	incMs := cfg.QuickMs * 3 / 10
	for k, cut := range runs {
		script, ord := r.IncrementalScript(incMs, cut)
		rr[k].order = ord
		if len(ord) == 0 {
			continue
		}
		dirk := filepath.Join(cfg.WorkDir, mangle(r.Unit))
		os.MkdirAll(dirk, 0o755)
		file := filepath.Join(dirk, fmt.Sprintf("unit%d.smt2", k))
		os.WriteFile(file, []byte(script), 0o644)
		rwg.Add(1)
		go func(k int, file string, n int) {
			defer rwg.Done()
			rr[k].results, rr[k].times, rr[k].errs, _ = runSolverTimed(solvers[0], file, incMs, incMs*(n+2)+10000)
		}(k, file, len(ord))
	}
	rwg.Wait()
	dir := filepath.Join(cfg.WorkDir, mangle(r.Unit))
	for _, x := range rr {
		order = append(order, x.order...)
		results, times, errs := x.results, x.times, x.errs
		ri := 0
		for _, ob := range x.order {
			res := "unknown"
			obMs := int64(0)
			riStart := ri
			if len(ob.Parts) > 0 {
				res = "unsat"
				ob.FailPart = -1
				ob.failParts = nil
				for pi := range ob.Parts {
					pr := "unknown"
					if ri < len(results) {
						pr = results[ri]
					}
					ri++
					if pr != "unsat" {
						ob.failParts = append(ob.failParts, pi)
						if res == "unsat" {
							res = pr
							ob.FailPart = pi
						}
					}
				}
			} else {
				if ri < len(results) {
					res = results[ri]
				}
				ri++
			}
			for k := riStart; k < ri && k < len(times); k++ {
				obMs += times[k]
			}
			if len(errs) > 0 {
				res = "error"
				ob.Detail = strings.Join(errs, "; ")
				if len(ob.Detail) > 600 {
					ob.Detail = ob.Detail[:600]
				}
			}
			ob.Result = res
			ob.Backend = solvers[0].name + " (incremental)"
			ob.Ms = obMs
		}
	}
	for _, ob := range r.Obs {
		if ob.Kind == "check" && ob.Result == "" {
			ob.Result = "unknown"
			order = append(order, ob)
		}
	}
	// fallback / cross-check
	var wg sync.WaitGroup
	sem := make(chan struct{}, 6)
	for _, ob := range order {
		need := false
		if ob.Cover {
			need = ob.Result == "unsat" // confirm a vacuity finding standalone; unknown is inconclusive
		} else {
			need = ob.Result != "unsat"
		}
		if !need && !(cfg.Cross && ob.Kind == "ensures") {
			continue
		}
		wg.Add(1)
		go func(ob *Obligation) {
			defer wg.Done()
			sem <- struct{}{}
			defer func() { <-sem }()
			if len(ob.failParts) > 0 {
				// every part that was not discharged incrementally gets its own standalone race
				for _, pi := range ob.failParts {
					ob.FailPart = pi
					ob.Result = "unknown"
					standalone(r, ob, cfg, dir)
					if ob.Result != "unsat" {
						ob.Detail = fmt.Sprintf("exit %d of %d (return at %s): %s", pi+1, len(ob.Parts), ob.PartPos[pi], ob.Detail)
						return
					}
				}
				return
			}
			standalone(r, ob, cfg, dir)
		}(ob)
	}
	wg.Wait()
}

func standalone(r *UnitResult, ob *Obligation, cfg SolverCfg, dir string) {
	q := r.QueryFor(ob, !ob.Cover)
	file := filepath.Join(dir, mangle(ob.Name)+".smt2")
	if len(ob.Parts) > 0 {
		file = filepath.Join(dir, fmt.Sprintf("%s.exit%d.smt2", mangle(ob.Name), ob.FailPart+1))
	}
	os.WriteFile(file, []byte(q), 0o644)
	type res struct {
		solver string
		out    string
		first  string
		ms     int64
	}
	ch := make(chan res, len(solvers))
	raceCtx, raceCancel := context.WithCancel(context.Background())
	defer raceCancel()
	for _, s := range solvers {
		go func(s solverSpec) {
			t0 := time.Now()
			out, err := runSolverCtx(raceCtx, s, file, cfg.FallbackMs, cfg.FallbackMs+5000)
			first := "unknown"
			for _, l := range strings.Split(out, "\n") {
				l = strings.TrimSpace(l)
				if l == "sat" || l == "unsat" || l == "unknown" || l == "timeout" {
					first = l
					break
				}
				if strings.HasPrefix(l, "(error") {
					first = "error"
					break
				}
			}
			if err != nil {
				first = "timeout"
			}
			ch <- res{s.name, out, first, time.Since(t0).Milliseconds()}
		}(s)
	}
	wasUnsat := ob.Result == "unsat" && !ob.Cover
	var all []res
	for range solvers {
		x := <-ch
		all = append(all, x)
		// the race is decided by the first definite answer, unless every solver must be heard (cross-check)
		if !wasUnsat && ((!ob.Cover && (x.first == "unsat" || x.first == "sat")) || (ob.Cover && (x.first == "sat" || x.first == "unsat"))) {
			raceCancel()
			break
		}
	}
	want := "unsat"
	if ob.Cover {
		want = "sat"
	}
	agree := 0
	for _, x := range all {
		if x.first == want {
			agree++
		}
	}
	if wasUnsat {
		// cross-check mode
		for _, x := range all {
			if x.first == "sat" {
				ob.Result = "sat"
				ob.Backend = x.solver + " (disagrees with incremental run)"
				ob.Model = trimModel(x.out)
				return
			}
		}
		ob.Detail = fmt.Sprintf("cross-check: %d/%d solvers agree on unsat", agree, len(all))
		return
	}
	for _, x := range all {
		if x.first == want {
			ob.Result = want
			ob.Backend = x.solver
			ob.Ms = x.ms
			return
		}
	}
	if ob.Cover {
		// a cover is refuted only if a standalone solver run confirms unsat
		for _, x := range all {
			if x.first == "unsat" {
				ob.Result, ob.Backend, ob.Ms = "unsat", x.solver, x.ms
				return
			}
		}
		ob.Result = "unknown"
		ob.Backend = "z3-5.1.0, z3-4.8.12, cvc5-1.0.3"
		ob.Detail = "satisfiability not decided (quantified context); an incremental-mode unsat, if any, was not confirmed standalone"
		return
	}
	// not discharged: prefer a model
	for _, x := range all {
		if x.first == "sat" {
			ob.Result = x.first
			ob.Backend = x.solver
			ob.Ms = x.ms
			ob.Model = trimModel(x.out)
			return
		}
	}
	ob.Result = all[0].first
	ob.Backend = "z3-5.1.0, z3-4.8.12, cvc5-1.0.3"
	var ds []string
	for _, x := range all {
		ds = append(ds, x.solver+": "+x.first)
	}
	ob.Detail = strings.Join(ds, "; ")
}

func trimModel(out string) string {
	if len(out) > 200000 {
		return out[:200000]
	}
	return out
}

func allDefinite(rs []string) bool {
	for _, r := range rs {
		if r != "sat" && r != "unsat" {
			return false
		}
	}
	return len(rs) > 0
}
