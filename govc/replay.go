package main

type ReplayResult struct {
	Status   string `json:"status"` // confirmed | not-reproduced | not-attempted
	Reason   string `json:"reason,omitempty"`
	Inputs   any    `json:"inputs,omitempty"`
	TestFile string `json:"test_file,omitempty"`
	Output   string `json:"output,omitempty"`
}

func Replay(g *Gen, r *UnitResult, ob *Obligation, cfg SolverCfg, dir string) ReplayResult {
	return ReplayResult{Status: "not-attempted", Reason: "replay generator does not cover this unit yet"}
}
