package main

// Replay of a solver counterexample against the real code (DESIGN.md 5).
//
// For a failed obligation with a model, the entry state of the unit (parameters and every
// heap object reachable from them) is read out of ONE solver model through an interactive
// solver session, turned into Go source that builds the same object graph, and injected as an
// in-package test with `go test -overlay` (nothing is written into the repository). The test
// calls the real function and evaluates the violated clause, translated from the same contract
// AST into Go. Only a replay that observes the violation on the real code makes the VIOLATION
// line drop its "no-failing-input-found" suffix; anything the translator cannot express is
// reported as not-attempted with the reason.

import (
	"bufio"
	"context"
	"encoding/json"
	"fmt"
	"go/ast"
	"go/types"
	"io"
	"os"
	"os/exec"
	"path/filepath"
	"regexp"
	"sort"
	"strconv"
	"strings"
	"time"

	"golang.org/x/tools/go/ssa"
)

type ReplayResult struct {
	Status   string `json:"status"` // confirmed | not-reproduced | not-attempted
	Reason   string `json:"reason,omitempty"`
	Inputs   any    `json:"inputs,omitempty"`
	TestFile string `json:"test_file,omitempty"`
	Output   string `json:"output,omitempty"`
}

type replayFail struct{ msg string }

func rfail(format string, a ...any) { panic(replayFail{fmt.Sprintf(format, a...)}) }

// ---------------------------------------------------------------------------
// interactive solver session

type session struct {
	cmd    *exec.Cmd
	in     io.WriteCloser
	out    *bufio.Reader
	cancel context.CancelFunc
}

func startSession(query string, ms int) (*session, string, error) {
	ctx, cancel := context.WithTimeout(context.Background(), time.Duration(ms+60000)*time.Millisecond)
	cmd := exec.CommandContext(ctx, "z3-new", "-in", fmt.Sprintf("-t:%d", ms))
	in, err := cmd.StdinPipe()
	if err != nil {
		cancel()
		return nil, "", err
	}
	outp, err := cmd.StdoutPipe()
	if err != nil {
		cancel()
		return nil, "", err
	}
	cmd.Stderr = cmd.Stdout
	if err := cmd.Start(); err != nil {
		cancel()
		return nil, "", err
	}
	s := &session{cmd: cmd, in: in, out: bufio.NewReaderSize(outp, 1<<20), cancel: cancel}
	// drop everything from the first check-sat on: the session issues its own
	if i := strings.Index(query, "(check-sat)"); i >= 0 {
		query = query[:i]
	}
	io.WriteString(in, query+"\n(check-sat)\n")
	for {
		line, err := s.out.ReadString('\n')
		if err != nil {
			s.close()
			return nil, "", err
		}
		if strings.HasPrefix(line, "WARNING") || strings.TrimSpace(line) == "" {
			continue // z3 prints pattern warnings before the answer
		}
		return s, strings.TrimSpace(line), nil
	}
}

func (s *session) close() {
	io.WriteString(s.in, "(exit)\n")
	s.in.Close()
	s.cancel()
	s.cmd.Wait()
}

// eval returns the model value of a term of scalar sort (Int, Bool, Str, or a datatype printed on one value).
func (s *session) eval(term string) string {
	io.WriteString(s.in, "(get-value ("+term+"))\n")
	// read one balanced s-expression
	var b strings.Builder
	depth, started := 0, false
	for {
		r, _, err := s.out.ReadRune()
		if err != nil {
			rfail("solver session ended while evaluating %s", trunc(term, 80))
		}
		if r == '(' {
			depth++
			started = true
		}
		if started {
			b.WriteRune(r)
		}
		if r == ')' {
			depth--
			if started && depth == 0 {
				break
			}
		}
	}
	txt := strings.TrimSpace(b.String())
	if strings.HasPrefix(txt, "(error") {
		rfail("solver could not evaluate %s: %s", trunc(term, 80), trunc(txt, 120))
	}
	// ((term value)) -> value: the value is the last top-level s-expression inside the inner pair
	inner := strings.TrimSpace(txt[1 : len(txt)-1])
	inner = strings.TrimSpace(inner[1 : len(inner)-1])
	// skip the echoed term
	first := firstSexp(inner)
	return strings.TrimSpace(inner[len(first):])
}

func (s *session) evalInt(term string) int64 {
	v := s.eval(term)
	v = strings.ReplaceAll(v, " ", "")
	neg := false
	if strings.HasPrefix(v, "(-") {
		neg = true
		v = strings.TrimSuffix(strings.TrimPrefix(v, "(-"), ")")
	}
	n, err := strconv.ParseInt(v, 10, 64)
	if err != nil {
		// values beyond int64 (uint64 range): keep what fits
		u, err2 := strconv.ParseUint(v, 10, 64)
		if err2 != nil {
			rfail("model value %s of %s is not a machine integer", v, trunc(term, 60))
		}
		return int64(u)
	}
	if neg {
		return -n
	}
	return n
}

func (s *session) evalBig(term string) string {
	v := strings.ReplaceAll(s.eval(term), " ", "")
	if strings.HasPrefix(v, "(-") {
		return "-" + strings.TrimSuffix(strings.TrimPrefix(v, "(-"), ")")
	}
	return v
}

func (s *session) evalBool(term string) bool { return s.eval(term) == "true" }

// ---------------------------------------------------------------------------
// object-graph builder

type rbuilder struct {
	g        *Gen
	r        *UnitResult
	s        *session
	fn       *ssa.Function
	pkg      *types.Package
	declared map[string]bool   // SMT constants available in the query
	imports  map[string]string // import path -> alias
	objs     map[string]string // type#ref -> Go variable
	stmts    []string
	strs     map[string]string // abstract string value -> Go literal
	lits     map[string]string // abstract string value -> literal text, for values equal to a source literal
	nvar     int
	nobj     int
	candStr  []string // string-sorted terms seen (candidate map keys)
	candInt  []string
	chans    []string // "var|elemType" of channels created
	summary  map[string]any
}

func (b *rbuilder) alias(path, name string) string {
	if path == b.pkg.Path() {
		return ""
	}
	if a, ok := b.imports[path]; ok {
		return a
	}
	a := fmt.Sprintf("vr%s%d", sanitizeIdent(name), len(b.imports))
	b.imports[path] = a
	return a
}

func sanitizeIdent(s string) string {
	var o strings.Builder
	for _, c := range s {
		if c >= 'a' && c <= 'z' || c >= 'A' && c <= 'Z' {
			o.WriteRune(c)
		}
	}
	return o.String()
}

func (b *rbuilder) typeStr(t types.Type) string {
	return types.TypeString(t, func(p *types.Package) string { return b.alias(p.Path(), p.Name()) })
}

func (b *rbuilder) newVar() string {
	b.nvar++
	return fmt.Sprintf("v%d", b.nvar)
}

func (b *rbuilder) hasConst(name string) bool { return b.declared[name] }

// goString maps an abstract string value of the model to a concrete Go string: the source
// literal it equals, or a fresh string of the model's length (distinct values stay distinct).
func (b *rbuilder) goString(term string) string {
	val := b.s.eval(term)
	if lit, ok := b.lits[val]; ok {
		return strconv.Quote(lit)
	}
	if g, ok := b.strs[val]; ok {
		return g
	}
	n := b.s.evalInt("(strlen " + term + ")")
	if n < 0 {
		n = 0
	}
	if n > 4096 {
		rfail("model string of length %d", n)
	}
	id := len(b.strs)
	base := fmt.Sprintf("%c%d", 'a'+rune(id%26), id)
	var sv string
	switch {
	case n == 0:
		sv = ""
	case int(n) <= len(base):
		sv = base[:n]
		// keep one-character strings distinct
		if n == 1 {
			sv = string(rune('a' + id%26))
		}
	default:
		sv = base + strings.Repeat("x", int(n)-len(base))
	}
	q := strconv.Quote(sv)
	b.strs[val] = q
	return q
}

func (b *rbuilder) value(term string, t types.Type, depth int) string {
	if depth > 8 {
		rfail("object graph deeper than 8")
	}
	t = types.Unalias(t)
	if isOpaqueStruct(t) {
		rfail("opaque struct value %s", t)
	}
	switch u := t.Underlying().(type) {
	case *types.Basic:
		switch {
		case u.Info()&types.IsBoolean != 0:
			if b.s.evalBool(term) {
				return "true"
			}
			return "false"
		case u.Info()&types.IsInteger != 0:
			v := b.s.evalBig(term)
			b.candInt = append(b.candInt, v)
			return fmt.Sprintf("%s(%s)", b.typeStr(t), v)
		case u.Info()&types.IsString != 0:
			b.candStr = append(b.candStr, term)
			g := b.goString(term)
			if _, named := t.(*types.Named); named {
				return fmt.Sprintf("%s(%s)", b.typeStr(t), g)
			}
			return g
		}
		rfail("basic type %s", t)
	case *types.Pointer:
		ref := b.s.evalInt(term)
		if ref == 0 {
			return "nil"
		}
		return b.object(ref, u.Elem(), depth)
	case *types.Map:
		ref := b.s.evalInt(term)
		if ref == 0 {
			return "nil"
		}
		return b.mapValue(ref, t, u, depth)
	case *types.Slice:
		so := string(b.r.reg.SortOf(t))
		n := b.s.evalInt(fmt.Sprintf("(len_%s %s)", so, term))
		if n == 0 {
			return "nil"
		}
		if n > 64 {
			rfail("model slice of length %d", n)
		}
		var els []string
		for i := int64(0); i < n; i++ {
			els = append(els, b.value(fmt.Sprintf("(select (data_%s %s) %d)", so, term, i), u.Elem(), depth+1))
		}
		return fmt.Sprintf("%s{%s}", b.typeStr(t), strings.Join(els, ", "))
	case *types.Interface:
		tag := b.s.evalInt("(itag " + term + ")")
		if tag == 0 {
			return "nil"
		}
		if int(tag) >= len(b.r.reg.tagTypes) || b.r.reg.tagTypes[tag] == nil {
			rfail("interface value of a dynamic type the verifier does not name (tag %d)", tag)
		}
		dt := b.r.reg.tagTypes[tag]
		pay := b.s.evalBig("(ipay " + term + ")")
		if _, isPtr := dt.Underlying().(*types.Pointer); isPtr {
			return b.value(pay, dt, depth+1)
		}
		if bt, ok := dt.Underlying().(*types.Basic); ok && bt.Info()&types.IsInteger != 0 {
			return fmt.Sprintf("%s(%s)", b.typeStr(dt), pay)
		}
		rfail("interface value of dynamic type %s", dt)
	case *types.Chan:
		v := b.newVar()
		b.stmts = append(b.stmts, fmt.Sprintf("%s := make(chan %s, 1024)", v, b.typeStr(u.Elem())))
		b.chans = append(b.chans, v+"|"+b.typeStr(u.Elem())+"|"+term)
		return v
	case *types.Struct:
		rfail("struct passed by value (%s)", t)
	case *types.Signature:
		rfail("function-typed input")
	}
	rfail("input of type %s", t)
	return ""
}

func (b *rbuilder) object(ref int64, elem types.Type, depth int) string {
	key := fmt.Sprintf("%s#%d", elem.String(), ref)
	if v, ok := b.objs[key]; ok {
		return v
	}
	b.nobj++
	if b.nobj > 60 {
		rfail("object graph larger than 60 objects")
	}
	v := b.newVar()
	b.objs[key] = v
	st, ok := elem.Underlying().(*types.Struct)
	if !ok {
		// pointer to a scalar cell (e.g. *string in ygot structs)
		cell := "C_" + shortTypeName(elem) + "@0"
		b.stmts = append(b.stmts, fmt.Sprintf("%s := new(%s)", v, b.typeStr(elem)))
		if b.hasConst(cell) {
			b.stmts = append(b.stmts, fmt.Sprintf("*%s = %s", v, b.value(fmt.Sprintf("(select %s %d)", cell, ref), elem, depth+1)))
		}
		return v
	}
	b.stmts = append(b.stmts, fmt.Sprintf("%s := new(%s)", v, b.typeStr(elem)))
	samePkg := false
	if n, ok := types.Unalias(elem).(*types.Named); ok && n.Obj().Pkg() != nil && n.Obj().Pkg().Path() == b.pkg.Path() {
		samePkg = true
	}
	fields := map[string]any{}
	for i := 0; i < st.NumFields(); i++ {
		f := st.Field(i)
		if !f.Exported() && !samePkg {
			continue
		}
		if isOpaqueStruct(f.Type()) {
			continue // mutexes, atomics, protobuf bookkeeping: zero value
		}
		if _, isStruct := f.Type().Underlying().(*types.Struct); isStruct {
			continue
		}
		arr := "H_" + shortTypeName(elem) + "_" + f.Name() + "@0"
		if !b.hasConst(arr) {
			continue // never read by the unit: the zero value will do
		}
		if _, isFn := f.Type().Underlying().(*types.Signature); isFn {
			continue
		}
		gv := b.value(fmt.Sprintf("(select %s %d)", arr, ref), f.Type(), depth+1)
		if gv == "nil" || gv == "false" || gv == `""` {
			continue
		}
		b.stmts = append(b.stmts, fmt.Sprintf("%s.%s = %s", v, f.Name(), gv))
		fields[f.Name()] = gv
	}
	b.summary[v+" "+b.typeStr(elem)] = fields
	return v
}

func (b *rbuilder) mapValue(ref int64, t types.Type, m *types.Map, depth int) string {
	key := fmt.Sprintf("%s#%d", t.String(), ref)
	if v, ok := b.objs[key]; ok {
		return v
	}
	v := b.newVar()
	b.objs[key] = v
	b.stmts = append(b.stmts, fmt.Sprintf("%s := %s{}", v, b.typeStr(t)))
	n := shortTypeName(t.Underlying())
	dom, val := "MD_"+n+"@0", "MV_"+n+"@0"
	if !b.hasConst(dom) {
		return v
	}
	var cands []string
	switch kb := m.Key().Underlying().(type) {
	case *types.Basic:
		if kb.Info()&types.IsString != 0 {
			cands = append(cands, b.candStr...)
			for _, name := range b.strNames() {
				cands = append(cands, name)
			}
		} else if kb.Info()&types.IsInteger != 0 {
			cands = append(cands, b.candInt...)
		}
	default:
		return v // keys of other types: leave the map empty (reported in the summary)
	}
	seen := map[string]bool{}
	entries := map[string]any{}
	for _, c := range cands {
		if len(seen) > 12 {
			break
		}
		if !b.s.evalBool(fmt.Sprintf("(select (select %s %d) %s)", dom, ref, c)) {
			continue
		}
		kv := b.value(c, m.Key(), depth+1)
		if seen[kv] {
			continue
		}
		seen[kv] = true
		if b.hasConst(val) {
			ev := b.value(fmt.Sprintf("(select (select %s %d) %s)", val, ref, c), m.Elem(), depth+1)
			b.stmts = append(b.stmts, fmt.Sprintf("%s[%s] = %s", v, kv, ev))
			entries[kv] = ev
		} else {
			b.stmts = append(b.stmts, fmt.Sprintf("%s[%s] = *new(%s)", v, kv, b.typeStr(m.Elem())))
			entries[kv] = "zero"
		}
	}
	b.summary[v+" "+b.typeStr(t)] = entries
	return v
}

func (b *rbuilder) strNames() []string {
	var out []string
	for _, n := range b.r.reg.strLits {
		out = append(out, n)
	}
	sort.Strings(out)
	return out
}

// ---------------------------------------------------------------------------
// contract expression -> Go

type goTr struct {
	b       *rbuilder
	g       *Gen
	env     map[string]string // DSL identifier -> Go expression
	olds    []string          // statements computing old(...) snapshots before the call
	nold    int
	pkgPath string
	inOld   bool
}

var cmpOps = map[string]bool{"==": true, "!=": true, "<": true, "<=": true, ">": true, ">=": true}

func (t *goTr) isBig(e Expr) bool {
	switch x := e.(type) {
	case *ECall:
		if id, ok := x.Fun.(*EIdent); ok {
			if id.Name == "u128" {
				return true
			}
			if p, ok := t.g.specs.Preds[id.Name]; ok {
				return t.isBig(p.Body)
			}
			if id.Name == "ite" && len(x.Args) == 3 {
				return t.isBig(x.Args[1]) || t.isBig(x.Args[2])
			}
		}
	case *EOld:
		return t.isBig(x.X)
	}
	return false
}

func (t *goTr) big(e Expr) string {
	if t.isBig(e) {
		return t.tr(e)
	}
	return "vrBig(uint64(" + t.tr(e) + "))"
}

func (t *goTr) tr(e Expr) string {
	switch x := e.(type) {
	case *ELit:
		return x.exprString()
	case *EIdent:
		if v, ok := t.env[x.Name]; ok {
			return v
		}
		switch x.Name {
		case "true", "false", "nil":
			return x.Name
		}
		if _, ghost := t.g.specs.GhostVars[x.Name]; ghost {
			rfail("clause mentions ghost state %s", x.Name)
		}
		if _, region := t.g.specs.Regions[x.Name]; region {
			rfail("clause mentions the abstract region %s", x.Name)
		}
		return x.Name // package-level name or import alias
	case *ESel:
		return t.tr(x.X) + "." + x.Name
	case *EIndex:
		return t.tr(x.X) + "[" + t.tr(x.I) + "]"
	case *EUnary:
		return "(" + x.Op + t.tr(x.X) + ")"
	case *EOld:
		if t.inOld {
			return t.tr(x.X)
		}
		// old(len(sent(ch))) and old(sent(ch)...) : the channels are created empty by the harness
		t.inOld = true
		inner := t.tr(x.X)
		t.inOld = false
		t.nold++
		v := fmt.Sprintf("vrOld%d", t.nold)
		t.olds = append(t.olds, fmt.Sprintf("%s := %s", v, inner))
		return v
	case *ETypeIs:
		return t.tr(x.X) + ".(" + x.Type + ")"
	case *EBinary:
		switch x.Op {
		case "==>":
			return "(!(" + t.tr(x.X) + ") || (" + t.tr(x.Y) + "))"
		case "<==>":
			return "((" + t.tr(x.X) + ") == (" + t.tr(x.Y) + "))"
		case "in":
			if c, ok := x.Y.(*ECall); ok {
				if id, ok := c.Fun.(*EIdent); ok && id.Name == "dom" {
					return "vrHas(" + t.tr(c.Args[0]) + ", " + t.tr(x.X) + ")"
				}
			}
			if o, ok := x.Y.(*EOld); ok {
				// k in old(dom(m)): snapshot of the key set
				if c, ok := o.X.(*ECall); ok {
					if id, ok := c.Fun.(*EIdent); ok && id.Name == "dom" && !t.inOld {
						t.nold++
						v := fmt.Sprintf("vrOld%d", t.nold)
						t.inOld = true
						m := t.tr(c.Args[0])
						t.inOld = false
						t.olds = append(t.olds, fmt.Sprintf("%s := vrKeys(%s)", v, m))
						return "vrHas(" + v + ", " + t.tr(x.X) + ")"
					}
				}
			}
			rfail("set membership in %s", x.Y.exprString())
		}
		if cmpOps[x.Op] && (t.isBig(x.X) || t.isBig(x.Y)) {
			return fmt.Sprintf("(%s.Cmp(%s) %s 0)", t.big(x.X), t.big(x.Y), x.Op)
		}
		if cmpOps[x.Op] {
			// comparisons with nil of interface-held pointers work as in Go
			return "(" + t.tr(x.X) + " " + x.Op + " " + t.tr(x.Y) + ")"
		}
		switch x.Op {
		case "&&", "||", "+", "-", "*", "/", "%":
			return "(" + t.tr(x.X) + " " + x.Op + " " + t.tr(x.Y) + ")"
		}
		rfail("operator %s", x.Op)
	case *EQuant:
		return t.quant(x, 0)
	case *ECall:
		return t.call(x)
	}
	rfail("expression %s", e.exprString())
	return ""
}

func (t *goTr) quant(q *EQuant, i int) string {
	if i == len(q.Binders) {
		return t.tr(q.Body)
	}
	bd := q.Binders[i]
	saved, had := t.env[bd.Name]
	gv := "q" + bd.Name
	t.env[bd.Name] = gv
	defer func() {
		if had {
			t.env[bd.Name] = saved
		} else {
			delete(t.env, bd.Name)
		}
	}()
	hit, miss := "false", "true"
	neg := "!"
	if !q.Forall {
		hit, miss = "true", "false"
		neg = ""
	}
	switch bd.Kind {
	case "range":
		lo, hi := t.tr(bd.A), t.tr(bd.B)
		body := t.quant(q, i+1)
		return fmt.Sprintf("func() bool { for %s := int(%s); %s < int(%s); %s++ { if %s(%s) { return %s } }; return %s }()", gv, lo, gv, hi, gv, neg, body, hit, miss)
	case "dom":
		m := t.tr(bd.A)
		body := t.quant(q, i+1)
		return fmt.Sprintf("func() bool { for %s := range %s { if %s(%s) { return %s } }; return %s }()", gv, m, neg, body, hit, miss)
	}
	rfail("quantifier over %s", bd.Kind)
	return ""
}

func (t *goTr) call(x *ECall) string {
	if sel, ok := x.Fun.(*ESel); ok {
		// method call (generated getters): as in Go
		var as []string
		for _, a := range x.Args {
			as = append(as, t.tr(a))
		}
		return t.tr(sel.X) + "." + sel.Name + "(" + strings.Join(as, ", ") + ")"
	}
	id, ok := x.Fun.(*EIdent)
	if !ok {
		rfail("call %s", x.exprString())
	}
	arg := func(i int) string { return t.tr(x.Args[i]) }
	switch id.Name {
	case "len":
		if c, ok := x.Args[0].(*ECall); ok {
			if cid, ok := c.Fun.(*EIdent); ok && cid.Name == "sent" && t.inOld {
				return "0"
			}
		}
		return "len(" + arg(0) + ")"
	case "u128":
		return "vrU128(uint64(" + arg(0) + "), uint64(" + arg(1) + "))"
	case "fresh", "allocated":
		return "true"
	case "ite":
		if t.isBig(x) {
			return "vrIteBig(" + arg(0) + ", " + t.big(x.Args[1]) + ", " + t.big(x.Args[2]) + ")"
		}
		return "vrIte(" + arg(0) + ", " + arg(1) + ", " + arg(2) + ")"
	case "errCode":
		t.b.alias("google.golang.org/grpc/status", "status")
		return t.b.imports["google.golang.org/grpc/status"] + ".Code(" + arg(0) + ")"
	case "errDetail":
		t.b.alias("google.golang.org/grpc/status", "status")
		return "vrErrDetail(" + arg(0) + ")"
	case "istype":
		ty, ok := x.Args[1].(*EIdent)
		tyS := ""
		if ok {
			tyS = ty.Name
		} else {
			tyS = x.Args[1].exprString()
		}
		return "func() bool { _, ok := any(" + arg(0) + ").(" + tyS + "); return ok }()"
	case "tagof":
		return "vrTag(" + arg(0) + ")"
	case "sent":
		for _, c := range t.b.chans {
			p := strings.Split(c, "|")
			if p[0] == arg(0) {
				return "vrSent_" + p[0]
			}
		}
		rfail("sent() of a channel the harness did not create")
	case "int":
		return "int(" + arg(0) + ")"
	}
	if p, ok := t.g.specs.Preds[id.Name]; ok {
		if len(p.Params) != len(x.Args) {
			rfail("pred %s arity", id.Name)
		}
		saved := map[string]*string{}
		for _, prm := range p.Params {
			if v, had := t.env[prm.Name]; had {
				vv := v
				saved[prm.Name] = &vv
			} else {
				saved[prm.Name] = nil
			}
		}
		vals := make([]string, len(x.Args))
		for i := range x.Args {
			vals[i] = "(" + t.tr(x.Args[i]) + ")"
		}
		for i, prm := range p.Params {
			t.env[prm.Name] = vals[i]
		}
		out := "(" + t.tr(p.Body) + ")"
		for n, v := range saved {
			if v == nil {
				delete(t.env, n)
			} else {
				t.env[n] = *v
			}
		}
		return out
	}
	rfail("contract function %s has no executable counterpart", id.Name)
	return ""
}

// ---------------------------------------------------------------------------

const replayHelpers = `
func vrBig(x uint64) *big.Int { return new(big.Int).SetUint64(x) }
func vrU128(h, l uint64) *big.Int {
	r := new(big.Int).SetUint64(h)
	r.Lsh(r, 64)
	return r.Add(r, new(big.Int).SetUint64(l))
}
func vrIteBig(c bool, a, b *big.Int) *big.Int {
	if c {
		return a
	}
	return b
}
func vrIte[T any](c bool, a, b T) T {
	if c {
		return a
	}
	return b
}
func vrHas[K comparable, V any](m map[K]V, k K) bool { _, ok := m[k]; return ok }
func vrKeys[K comparable, V any](m map[K]V) map[K]bool {
	r := map[K]bool{}
	for k := range m {
		r[k] = true
	}
	return r
}
func vrTag(x any) int {
	if x == nil {
		return 0
	}
	return 1
}
`

const replayErrDetail = `
func vrErrDetail(e error) any {
	if e == nil {
		return nil
	}
	ds := STATUS.Convert(e).Details()
	if len(ds) == 0 {
		return nil
	}
	return ds[0]
}
`

// Replay turns the model of a failed obligation into a test of the real code.
func Replay(g *Gen, r *UnitResult, ob *Obligation, cfg SolverCfg, dir string) (res ReplayResult) {
	defer func() {
		if x := recover(); x != nil {
			if f, ok := x.(replayFail); ok {
				res = ReplayResult{Status: "not-attempted", Reason: f.msg}
				return
			}
			res = ReplayResult{Status: "not-attempted", Reason: fmt.Sprintf("internal error of the replay generator: %v", x)}
		}
	}()
	if os.Getenv("GOVC_NOREPLAY") != "" {
		return ReplayResult{Status: "not-attempted", Reason: "replay disabled (GOVC_NOREPLAY)"}
	}
	ct := r.ct
	fn := g.findFunc(ct.Pkg, ct.Func)
	if fn == nil || strings.Contains(ct.Func, "$") || len(fn.TypeArgs()) > 0 || fn.TypeParams().Len() > 0 {
		return ReplayResult{Status: "not-attempted", Reason: "closures and generic instances are not replayed"}
	}
	var clause Expr
	switch ob.Kind {
	case "ensures":
		unl := 0
		for _, c := range ct.Ensures {
			lbl := c.Label
			if lbl == "" {
				unl++
				lbl = fmt.Sprint(unl)
			}
			if ob.Name == "ensures#"+lbl {
				clause = c.E
			}
		}
		if clause == nil {
			return ReplayResult{Status: "not-attempted", Reason: "clause of the obligation not found"}
		}
	case "safety":
	default:
		return ReplayResult{Status: "not-attempted", Reason: "only postconditions and panic-freedom obligations are replayed (this one is checked at an intermediate program point: " + ob.Kind + ")"}
	}
	q := r.QueryFor(ob, false)
	s, first, err := startSession(q, 20000)
	if err != nil {
		return ReplayResult{Status: "not-attempted", Reason: "solver session: " + err.Error()}
	}
	defer s.close()
	// "unknown" (quantifiers the solver could not decide): z3 still holds a candidate model. It is not known to
	// satisfy the assumptions, so the generated test checks the unit's preconditions on the concrete input first and
	// only an input that passes them and then violates the clause on the real code counts as a counterexample.
	candidate := first == "unknown"
	if first != "sat" && !candidate {
		return ReplayResult{Status: "not-attempted", Reason: "z3 5.1.0 did not reproduce the model interactively (answered " + first + ")"}
	}
	if candidate {
		// no model after a timeout: ask again without the quantified assumptions (a weaker context, so any model
		// of it is only a candidate - which is all this mode needs)
		s.close()
		var kept []string
		lines := strings.Split(q, "\n")
		goalAt := -1
		for i, l := range lines {
			if strings.HasPrefix(l, "(assert (not ") {
				goalAt = i
			}
		}
		for i, l := range lines {
			if i != goalAt && strings.HasPrefix(l, "(assert ") && (strings.Contains(l, "(forall (") || strings.Contains(l, "(exists (")) {
				continue
			}
			kept = append(kept, l)
		}
		s, first, err = startSession(strings.Join(kept, "\n"), 20000)
		if err != nil {
			return ReplayResult{Status: "not-attempted", Reason: "solver session: " + err.Error()}
		}
		defer s.close()
		if first != "sat" {
			return ReplayResult{Status: "not-attempted", Reason: "the solvers answered unknown and the quantifier-free weakening of the query gave no candidate model either (" + first + ")"}
		}
	}
	b := &rbuilder{g: g, r: r, s: s, fn: fn, pkg: fn.Pkg.Pkg, declared: map[string]bool{}, imports: map[string]string{}, objs: map[string]string{},
		strs: map[string]string{}, lits: map[string]string{}, summary: map[string]any{}}
	for _, e := range r.initEv {
		if e.Kind == EvConst {
			b.declared[e.Name] = true
		}
	}
	// abstract values of the source literals
	b.lits[s.eval("str_empty")] = ""
	for lit, name := range r.reg.strLits {
		b.lits[s.eval(name)] = lit
	}
	// scalar parameters first: they are the candidate keys when maps are probed
	for _, p := range fn.Params {
		bt, ok := p.Type().Underlying().(*types.Basic)
		if !ok {
			continue
		}
		for _, in := range ob.Inputs {
			if in.Name != p.Name() {
				continue
			}
			if bt.Info()&types.IsString != 0 {
				b.candStr = append(b.candStr, in.Term.S)
			} else if bt.Info()&types.IsInteger != 0 {
				b.candInt = append(b.candInt, s.evalBig(in.Term.S))
			}
		}
	}
	// arguments
	var args []string
	env := map[string]string{}
	sig := fn.Signature
	for i, p := range fn.Params {
		var term string
		for _, in := range ob.Inputs {
			if in.Name == p.Name() {
				term = in.Term.S
			}
		}
		if term == "" {
			rfail("no model term for parameter %s", p.Name())
		}
		if named, ok := types.Unalias(p.Type()).(*types.Named); ok && named.Obj().Pkg() != nil && named.Obj().Pkg().Path() == "testing" {
			rfail("testing.TB parameter")
		}
		gv := b.value(term, p.Type(), 0)
		v := fmt.Sprintf("a%d", i)
		b.stmts = append(b.stmts, fmt.Sprintf("var %s %s = %s", v, b.typeStr(p.Type()), gv))
		b.stmts = append(b.stmts, "_ = "+v)
		args = append(args, v)
		env[p.Name()] = v
		b.summary["arg "+p.Name()] = gv
	}
	// the call
	nres := sig.Results().Len()
	var rv []string
	for i := 0; i < nres; i++ {
		rv = append(rv, fmt.Sprintf("r%d", i))
		env[fmt.Sprintf("result%d", i)] = fmt.Sprintf("r%d", i)
	}
	if nres > 0 {
		env["result"] = "r0"
	}
	var call string
	if sig.Recv() != nil {
		call = fmt.Sprintf("%s.%s(%s)", args[0], fn.Name(), strings.Join(args[1:], ", "))
	} else {
		call = fmt.Sprintf("%s(%s)", fn.Name(), strings.Join(args, ", "))
	}
	if sig.Variadic() && len(args) > 0 {
		call = strings.TrimSuffix(call, ")") + "...)"
	}
	// oracle
	tr := &goTr{b: b, g: g, env: env, pkgPath: ct.Pkg}
	oracle := "true"
	if clause != nil {
		oracle = tr.tr(clause)
	}
	var pres []string
	if candidate {
		for _, c := range ct.Requires {
			pres = append(pres, tr.tr(c.E))
		}
	}
	// assemble the test file
	var src strings.Builder
	fmt.Fprintf(&src, "package %s\n\nimport (\n\t\"math/big\"\n\t\"testing\"\n", fn.Pkg.Pkg.Name())
	// imports of the package's own files (aliases used inside contract text) plus generated ones
	used := oracle + strings.Join(tr.olds, "\n") + strings.Join(pres, "\n")
	fileImports := map[string]string{}
	if p := g.pkgs[ct.Pkg]; p != nil {
		for _, f := range p.Syntax {
			for _, im := range f.Imports {
				path, _ := strconv.Unquote(im.Path.Value)
				name := ""
				if im.Name != nil {
					name = im.Name.Name
				} else if ip := p.Imports[path]; ip != nil {
					name = ip.Name
				}
				if name != "" && name != "_" && name != "." {
					fileImports[name] = path
				}
			}
		}
	}
	var names []string
	for n := range fileImports {
		names = append(names, n)
	}
	sort.Strings(names)
	for _, n := range names {
		if n == "big" || n == "testing" {
			continue
		}
		if regexp.MustCompile(`\b` + regexp.QuoteMeta(n) + `\.`).MatchString(used) {
			fmt.Fprintf(&src, "\t%s %q\n", n, fileImports[n])
		}
	}
	var ips []string
	for p := range b.imports {
		ips = append(ips, p)
	}
	sort.Strings(ips)
	for _, p := range ips {
		fmt.Fprintf(&src, "\t%s %q\n", b.imports[p], p)
	}
	src.WriteString(")\n\nvar _ = big.NewInt\n")
	src.WriteString(replayHelpers)
	if a, ok := b.imports["google.golang.org/grpc/status"]; ok {
		src.WriteString(strings.ReplaceAll(replayErrDetail, "STATUS", a))
	}
	src.WriteString("\nfunc TestVerifReplay(t *testing.T) {\n")
	for _, st := range b.stmts {
		src.WriteString("\t" + st + "\n")
	}
	for _, c := range b.chans {
		p := strings.Split(c, "|")
		fmt.Fprintf(&src, "\tvar vrSent_%s []%s\n\t_ = vrSent_%s\n", p[0], p[1], p[0])
	}
	for _, o := range tr.olds {
		src.WriteString("\t" + o + "\n")
		src.WriteString("\t_ = " + strings.SplitN(o, " ", 2)[0] + "\n")
	}
	for i, pc := range pres {
		fmt.Fprintf(&src, "\tif !(%s) {\n\t\tt.Logf(\"REPLAY candidate input violates precondition %d\")\n\t\treturn\n\t}\n", pc, i+1)
	}
	src.WriteString("\tpanicked := true\n\tfunc() {\n\t\tdefer func() {\n\t\t\tif x := recover(); x != nil {\n\t\t\t\tt.Logf(\"REPLAY panic: %v\", x)\n\t\t\t}\n\t\t}()\n")
	if nres > 0 {
		for i := 0; i < nres; i++ {
			fmt.Fprintf(&src, "\t\tvar %s %s\n\t\t_ = %s\n", rv[i], b.typeStr(sig.Results().At(i).Type()), rv[i])
		}
		fmt.Fprintf(&src, "\t\t%s = %s\n", strings.Join(rv, ", "), call)
	} else {
		fmt.Fprintf(&src, "\t\t%s\n", call)
	}
	src.WriteString("\t\tpanicked = false\n")
	for _, c := range b.chans {
		p := strings.Split(c, "|")
		fmt.Fprintf(&src, "\t\tfor len(%s) > 0 {\n\t\t\tvrSent_%s = append(vrSent_%s, <-%s)\n\t\t}\n", p[0], p[0], p[0], p[0])
	}
	if ob.Kind == "ensures" {
		fmt.Fprintf(&src, "\t\tif !(%s) {\n\t\t\tt.Logf(\"REPLAY clause violated\")\n\t\t\tt.Fail()\n\t\t}\n", oracle)
		for i := 0; i < nres; i++ {
			fmt.Fprintf(&src, "\t\tt.Logf(\"REPLAY result%d = %%v\", %s)\n", i, rv[i])
		}
	}
	src.WriteString("\t}()\n\tif panicked {\n\t\tt.Logf(\"REPLAY the call panicked\")\n\t\tt.Fail()\n\t}\n}\n")

	os.MkdirAll(dir, 0o755)
	testFile := filepath.Join(dir, mangle(ob.FullName())+"_replay_test.go")
	os.WriteFile(testFile, []byte(src.String()), 0o644)
	res = ReplayResult{Status: "not-reproduced", Inputs: b.summary, TestFile: testFile}
	out, ran := runReplayTest(g.repo, ct.Pkg, testFile)
	res.Output = trunc2(out, 6000)
	if !ran {
		res.Status = "not-attempted"
		res.Reason = "the generated test did not build or run (see output)"
		return res
	}
	if strings.Contains(out, "REPLAY candidate input violates precondition") {
		res.Reason = "the solver answered unknown; its candidate model does not satisfy the unit's preconditions when built as a concrete input"
		return res
	}
	switch ob.Kind {
	case "ensures":
		if strings.Contains(out, "REPLAY clause violated") {
			res.Status = "confirmed"
			res.Reason = "the real function, run on the solver's input, violates the clause"
		} else if strings.Contains(out, "REPLAY the call panicked") {
			res.Status = "confirmed"
			res.Reason = "the real function panics on the solver's input"
		} else {
			res.Reason = "the real function satisfies the clause on this input (the model relied on an abstraction: an assumed contract, abstract strings, or state the harness could not reproduce)"
		}
	case "safety":
		if strings.Contains(out, "REPLAY the call panicked") {
			res.Status = "confirmed"
			res.Reason = "the real function panics on the solver's input"
		} else {
			res.Reason = "no panic on this input"
		}
	}
	return res
}

// runReplayTest injects the test file into the package with -overlay and runs it.
func runReplayTest(repo, pkgPath, testFile string) (string, bool) {
	rel := strings.TrimPrefix(pkgPath, modPath)
	rel = strings.TrimPrefix(rel, "/")
	target := filepath.Join(repo, rel, "zz_verif_replay_test.go")
	ov := map[string]any{"Replace": map[string]string{target: testFile}}
	data, _ := json.Marshal(ov)
	ovFile := testFile + ".overlay.json"
	os.WriteFile(ovFile, data, 0o644)
	defer os.Remove(ovFile)
	ctx, cancel := context.WithTimeout(context.Background(), 240*time.Second)
	defer cancel()
	cmd := exec.CommandContext(ctx, "go", "test", "-overlay", ovFile, "-vet=off", "-count=1", "-timeout", "60s", "-run", "^TestVerifReplay$", "-v", "./"+rel)
	cmd.Dir = repo
	cmd.Env = append(os.Environ(), "GOFLAGS=-mod=mod", "GOPROXY=off", "GOSUMDB=off")
	out, _ := cmd.CombinedOutput()
	o := string(out)
	ran := strings.Contains(o, "=== RUN   TestVerifReplay")
	return o, ran
}

var _ = ast.NewIdent
