package main

import (
	"fmt"
	"go/types"
	"os"
	"strings"

	"golang.org/x/tools/go/ssa"
)

// mutexOf maps the address of a sync mutex to its lockset array and index.
func (u *UnitGen) mutexOf(a *Addr) (key string, ref Term, ok bool) {
	if a.local != "" || a.global != "" || a.slice != nil || len(a.path) == 0 {
		return "", Term{}, false
	}
	var names []string
	for _, p := range a.path {
		if p.idx != nil {
			return "", Term{}, false
		}
		names = append(names, p.st.Underlying().(*types.Struct).Field(p.field).Name())
	}
	k, _ := u.lockKey(a.objT, strings.Join(names, "."))
	return k, a.ref, true
}

func (u *UnitGen) intrinsic(fr *Frame, st *State, instr ssa.Instruction, fn *ssa.Function, key string, argv []ssa.Value) ([]Term, bool) {
	so := ArraySort(SInt, SInt)
	switch key {
	case "sync.RWMutex.Lock", "sync.Mutex.Lock", "sync.RWMutex.RLock", "sync.RWMutex.Unlock", "sync.Mutex.Unlock", "sync.RWMutex.RUnlock":
		a := u.addrOf(fr, st, argv[0])
		u.nilCheck(st, a, "mutex")
		lk, ref, ok := u.mutexOf(a)
		if !ok {
			u.note("mutex at %s is not tracked (not a struct field)", u.curPos)
			return nil, true
		}
		arr := u.get(st, lk, so)
		cur := Select(arr, ref)
		op := key[strings.LastIndex(key, ".")+1:]
		name := strings.TrimPrefix(lk, "LK:")
		switch op {
		case "Lock":
			u.oblige(st, "lock", u.obName("lock:acquire("+name+")"), "Lock of a mutex this call chain already holds would self-deadlock", Eq(cur, IntN(0)))
			u.setDef(st, lk, Store(arr, ref, IntN(2)))
		case "RLock":
			u.oblige(st, "lock", u.obName("lock:racquire("+name+")"), "RLock of a mutex this call chain holds for writing would self-deadlock", Not(Eq(cur, IntN(2))))
			u.setDef(st, lk, Store(arr, ref, Ite(Eq(cur, IntN(0)), IntN(1), cur)))
		case "Unlock":
			u.oblige(st, "lock", u.obName("lock:release("+name+")"), "Unlock of a mutex not held for writing", Eq(cur, IntN(2)))
			u.setDef(st, lk, Store(arr, ref, IntN(0)))
			u.sectionEnds(st, lk, ref)
		case "RUnlock":
			u.oblige(st, "lock", u.obName("lock:rrelease("+name+")"), "RUnlock of a mutex not held for reading", Eq(cur, IntN(1)))
			u.setDef(st, lk, Store(arr, ref, IntN(0)))
			u.sectionEnds(st, lk, ref)
		}
		return nil, true
	}
	pkg := ""
	if fn.Pkg != nil {
		pkg = fn.Pkg.Pkg.Path()
	} else if i := strings.LastIndex(key, "."); i >= 0 {
		pkg = key[:i]
	}
	if pkg == "github.com/golang/glog" || strings.HasPrefix(key, "github.com/golang/glog.") {
		// logging: no effect on tracked state; arguments were already evaluated
		sig := fn.Signature
		rs := make([]Term, sig.Results().Len())
		for i := range rs {
			rt := sig.Results().At(i).Type()
			rs[i] = u.havoc("glog", u.g.reg.SortOf(rt))
		}
		u.dropped["logging (glog): results opaque, no effect on tracked state"] = true
		return rs, true
	}
	return nil, false
}

// guardOf returns the mutex guarding field i of struct type t, if declared.
func (u *UnitGen) guardOf(t types.Type, field string) (mutex string, ok bool) {
	n, isNamed := types.Unalias(t).(*types.Named)
	if !isNamed || n.Obj().Pkg() == nil {
		return "", false
	}
	for _, g := range u.g.specs.Guards {
		if g.Pkg == n.Obj().Pkg().Path() && g.Struct == n.Obj().Name() {
			for _, f := range g.Fields {
				if f == field {
					return g.Mutex, true
				}
			}
		}
	}
	return "", false
}

// lockCheck emits the lock-discipline obligation for an access to a guarded field.
func (u *UnitGen) lockCheck(fr *Frame, st *State, a *Addr, write bool, v ssa.Value) {
	if a.local != "" || a.global != "" || a.slice != nil || len(a.path) == 0 || a.path[0].idx != nil {
		return
	}
	stt, ok := a.objT.Underlying().(*types.Struct)
	if !ok {
		return
	}
	fname := stt.Field(a.path[0].field).Name()
	mu, ok := u.guardOf(a.objT, fname)
	if !ok {
		return
	}
	if u.fresh0[a.ref.S] {
		return // object allocated by this unit and not yet shared
	}
	lk, so := u.lockKey(a.objT, mu)
	cur := Select(u.get(st, lk, so), a.ref)
	n := shortTypeName(a.objT) + "." + fname
	if write {
		u.oblige(st, "lock", u.obName("lock:write("+n+")"), "write of "+n+" requires "+mu+" held for writing", Eq(cur, IntN(2)))
		u.sectionWrite(st, lk, a.ref, n, mu)
	} else {
		// a read of an object allocated during this call (by the unit or by a callee) before the unit has
		// started any goroutine needs no lock: nothing else can reach it yet
		private := And(App(SBool, ">=", a.ref, u.top0), Eq(u.get(st, "G:spawned", SInt), u.spawned0))
		u.oblige(st, "lock", u.obName("lock:read("+n+")"), "read of "+n+" requires "+mu+" held (unless the object was allocated during this call and no goroutine was started)", Or(App(SBool, ">=", cur, IntN(1)), private))
		u.sectionRead(st, lk, a.ref)
	}
	if v != nil {
		fr.guardOrigin[v] = guardRef{lk, a.ref, n, mu}
	}
}

type guardRef struct {
	lockKey string
	ref     Term
	name    string
	mutex   string
}

// lockCheckMapWrite: writes to the contents of a map loaded from a guarded field need the write lock.
func (u *UnitGen) lockCheckMapWrite(fr *Frame, st *State, m ssa.Value) {
	g, ok := fr.guardOrigin[m]
	if !ok {
		if t, has := fr.vals[m]; has {
			g, ok = u.mapGuard[t.S]
		}
	}
	if !ok {
		return
	}
	cur := Select(u.get(st, g.lockKey, ArraySort(SInt, SInt)), g.ref)
	u.oblige(st, "lock", u.obName("lock:write("+g.name+"[])"), "update of map "+g.name+" requires "+g.mutex+" held for writing", Eq(cur, IntN(2)))
	u.sectionWrite(st, g.lockKey, g.ref, g.name+"[]", g.mutex)
}

// Critical-section tracking (check-then-act): every release of a mutex ends a section (its epoch
// LE goes up); a read of a guarded field remembers the section it happened in (LRD = epoch+1);
// a write of a field guarded by the same mutex must happen in the section of the unit's latest
// such read - otherwise the unit decided on a value it read, let go of the lock, and then acted
// on the decision after other goroutines could change the value.
func (u *UnitGen) sectionEnds(st *State, lk string, ref Term) {
	so := ArraySort(SInt, SInt)
	ek := "LE:" + strings.TrimPrefix(lk, "LK:")
	e := u.get0(st, ek, so)
	u.setDef(st, ek, Store(e, ref, App(SInt, "+", Select(e, ref), IntN(1))))
}

func (u *UnitGen) sectionRead(st *State, lk string, ref Term) {
	so := ArraySort(SInt, SInt)
	name := strings.TrimPrefix(lk, "LK:")
	e := u.get0(st, "LE:"+name, so)
	r := u.get0(st, "LRD:"+name, so)
	u.setDef(st, "LRD:"+name, Store(r, ref, App(SInt, "+", Select(e, ref), IntN(1))))
}

func (u *UnitGen) sectionWrite(st *State, lk string, ref Term, n, mu string) {
	so := ArraySort(SInt, SInt)
	name := strings.TrimPrefix(lk, "LK:")
	e := u.get0(st, "LE:"+name, so)
	r := u.get0(st, "LRD:"+name, so)
	last := Select(r, ref)
	u.oblige(st, "lock", u.obName("lock:single-section("+n+")"), "write of "+n+" happens in the same critical section of "+mu+" as this function's latest read of a field it guards (no check-then-act across a release)",
		Or(Eq(last, IntN(0)), Eq(last, App(SInt, "+", Select(e, ref), IntN(1)))))
}

// get0 reads a bookkeeping array whose initial value is all zeros.
func (u *UnitGen) get0(st *State, key string, so Sort) Term {
	if v, ok := st.vars[key]; ok {
		return v
	}
	if _, ok := u.init[key]; !ok {
		u.varSort[key] = so
		u.init[key] = ConstArray(so, IntN(0))
	}
	return u.init[key]
}

func (u *UnitGen) lockCheckMapRead(fr *Frame, st *State, m ssa.Value) {
	g, ok := fr.guardOrigin[m]
	if !ok {
		if t, has := fr.vals[m]; has {
			g, ok = u.mapGuard[t.S]
		}
	}
	if !ok {
		return
	}
	cur := Select(u.get(st, g.lockKey, ArraySort(SInt, SInt)), g.ref)
	private := And(App(SBool, ">=", g.ref, u.top0), Eq(u.get(st, "G:spawned", SInt), u.spawned0))
	u.oblige(st, "lock", u.obName("lock:read("+g.name+"[])"), "read of map "+g.name+" requires "+g.mutex+" held (unless its owner was allocated during this call and no goroutine was started)", Or(App(SBool, ">=", cur, IntN(1)), private))
	u.sectionRead(st, g.lockKey, g.ref)
}

// checkHolds verifies the lock preconditions of a callee contract ("holds r.mu:W").
func (u *UnitGen) checkHolds(fr *Frame, st *State, ct *Contract, env *Env, short string, ord int) {
	for _, h := range ct.Holds {
		expr, mode := h, "W"
		if i := strings.LastIndex(h, ":"); i >= 0 {
			expr, mode = h[:i], h[i+1:]
		}
		e, err := ParseExpr(expr)
		if err != nil {
			unsup("bad holds clause %q", h)
		}
		lk, ref := env.evalMutex(e)
		cur := Select(u.get(st, lk, ArraySort(SInt, SInt)), ref)
		goal := App(SBool, ">=", cur, IntN(1))
		if mode == "W" {
			goal = Eq(cur, IntN(2))
		}
		u.oblige(st, "lock", fmt.Sprintf("lock:holds:%s#%d(%s)", short, ord, expr), "callee requires "+h, goal)
	}
}

// pathOrigin: a pointer value known to have been reached from a struct with a guarded_path
// declaration by following the first idx fields of the listed chains.
type pathOrigin struct {
	g      *PathGuard
	chains [][]string
	idx    int
	ref    Term // the owning struct
	lk     string
	owner  string
}

// trackGuardedPath follows loads along declared field chains (guarded_path): when the end of a chain
// is reached the loaded value is a map whose contents are protected by the owner's mutex; lookups,
// ranges, updates and deletes on it then get the same lock obligations as maps stored in a
// guarded field of the owner itself.
func (u *UnitGen) trackGuardedPath(a *Addr, v Term) {
	if len(u.g.specs.PathGuards) == 0 || a.local != "" || a.global != "" || a.slice != nil || len(a.path) == 0 || a.path[0].idx != nil {
		return
	}
	stt, ok := a.objT.Underlying().(*types.Struct)
	if !ok {
		return
	}
	fname := stt.Field(a.path[0].field).Name()
	if os.Getenv("GOVC_DEBUG_PATH") != "" {
		_, has := u.termOrigin[a.ref.S]
		fmt.Fprintf(os.Stderr, "load %s.%s ref=%s known=%v -> %s\n", shortTypeName(a.objT), fname, trunc(a.ref.S, 50), has, trunc(v.S, 50))
	}
	var po *pathOrigin
	if prev, ok := u.termOrigin[a.ref.S]; ok {
		var next [][]string
		for _, c := range prev.chains {
			if prev.idx < len(c) && c[prev.idx] == fname {
				next = append(next, c)
			}
		}
		if len(next) > 0 {
			po = &pathOrigin{g: prev.g, chains: next, idx: prev.idx + 1, ref: prev.ref, lk: prev.lk, owner: prev.owner}
		}
	}
	if po == nil {
		if n, isNamed := types.Unalias(a.objT).(*types.Named); isNamed && n.Obj().Pkg() != nil {
			for i := range u.g.specs.PathGuards {
				g := &u.g.specs.PathGuards[i]
				if g.Pkg != n.Obj().Pkg().Path() || g.Struct != n.Obj().Name() {
					continue
				}
				var next [][]string
				for _, c := range g.Chains {
					if len(c) > 0 && c[0] == fname {
						next = append(next, c)
					}
				}
				if len(next) > 0 {
					lk, _ := u.lockKey(a.objT, g.Mutex)
					po = &pathOrigin{g: g, chains: next, idx: 1, ref: a.ref, lk: lk, owner: shortTypeName(a.objT)}
				}
			}
		}
	}
	if po == nil {
		return
	}
	if u.termOrigin == nil {
		u.termOrigin = map[string]*pathOrigin{}
		u.mapGuard = map[string]guardRef{}
	}
	u.termOrigin[v.S] = po
	for _, c := range po.chains {
		if po.idx == len(c) {
			u.mapGuard[v.S] = guardRef{po.lk, po.ref, po.owner + "." + strings.Join(c, "."), po.g.Mutex}
		}
	}
}

// inheritGuardedPath: a value computed from others (the merged result of an inlined getter) keeps
// the path origin of its sources.
func (u *UnitGen) inheritGuardedPath(dst Term, srcs ...Term) {
	for _, s := range srcs {
		if po, ok := u.termOrigin[s.S]; ok {
			u.termOrigin[dst.S] = po
			if g, ok := u.mapGuard[s.S]; ok {
				u.mapGuard[dst.S] = g
			}
			return
		}
	}
}
