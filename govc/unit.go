package main

import (
	"fmt"
	"go/types"
	"os"
	"sort"
	"strings"

	"golang.org/x/tools/go/ssa"
)

type UnitResult struct {
	Unit        string
	Func        string
	Obs         []*Obligation
	Unsupported string // non-empty: unit rejected
	Assumed     map[string]string
	Dropped     []string
	Notes       []string
	Inlined     []string
	Script      []string // SMT prelude+events (for debugging)
	events      []Event
	initEv      []Event
	reg         *SortReg
	Trusted     bool
	entryEnd    int
	ct          *Contract
}

func (g *Gen) newUnitGen(unit string, fn *ssa.Function, ct *Contract) *UnitGen {
	return &UnitGen{g: g, unit: unit, fn: fn, contract: ct,
		init: map[string]Term{}, varSort: map[string]Sort{}, fresh: map[string]int{}, obCtr: map[string]int{},
		assumed: map[string]string{}, localTypes: map[string]types.Type{}, nonNil: map[string]bool{},
		closureAt: map[string]*Closure{}, edgeGuard: map[edgeKey]Term{}, inlined: map[string]bool{},
		callCtr: map[string]int{}, dropped: map[string]bool{}, fresh0: map[string]bool{}, regionCache: map[string]string{}, ghostLocals: map[string]Val{}, assertDone: map[string]bool{}, assertCtr: map[string]int{}, keyType: map[string]types.Type{}, mapKeyType: map[string]types.Type{}, quantified: g.contractQuantifies(ct)}
}

// shortUnit turns github.com/openconfig/gribigo/server.isNewMaster into server.isNewMaster.
func shortUnit(key string) string {
	const pfx = "github.com/openconfig/gribigo/"
	if strings.HasPrefix(key, pfx) {
		return key[len(pfx):]
	}
	return key
}

// VerifyUnit generates all obligations of one function under contract.
func (g *Gen) VerifyUnit(ct *Contract, inst *ssa.Function) (res *UnitResult) {
	key := ct.Key()
	res = &UnitResult{Unit: shortUnit(key), Func: key, reg: g.reg}
	fn := g.findFunc(ct.Pkg, ct.Func)
	if inst != nil {
		fn = inst
		var targs []string
		for _, t := range inst.TypeArgs() {
			targs = append(targs, shortTypeName(t))
		}
		res.Unit += "[" + strings.Join(targs, ",") + "]"
	}
	if fn == nil {
		res.Unsupported = "contract target " + key + " not found in the package (renamed or deleted?)"
		return res
	}
	if ct.Trusted {
		res.Trusted = true
		if ct.Recovers != "" {
			ob := &Obligation{Unit: res.Unit, Name: "guard:recover", Kind: "guard", Clause: "the function installs a deferred recover that converts a panic of its callees into an error result: " + ct.Recovers,
				Pos: g.fset.Position(fn.Pos()).String(), Result: "sat", Backend: "structural check on go/ssa", Detail: "no deferred closure calling recover() and assigning a result was found in the entry block"}
			if recoversIntoResult(fn) {
				ob.Result, ob.Detail = "unsat", ""
			}
			res.Obs = append(res.Obs, ob)
		}
		return res
	}
	for i := range ct.Asserts {
		ct.Asserts[i].Hits = 0
	}
	for i := range ct.Ghosts {
		ct.Ghosts[i].Hits = 0
	}
	u := g.newUnitGen(res.Unit, fn, ct)
	// Lemma asserts and the ghost snapshots they use are proof hints tied to a source line. When
	// the line is gone (code restructured) the hint is dropped: the remaining obligations are
	// still checked, they just have to go through without it.
	if syn := fn.Syntax(); syn != nil && (len(ct.Asserts) > 0 || len(ct.Ghosts) > 0) {
		start, end := g.fset.Position(syn.Pos()), g.fset.Position(syn.End())
		lines := g.lines(start.Filename)
		has := func(anchor string) bool {
			for l := start.Line; l <= end.Line && l <= len(lines); l++ {
				if l >= 1 && strings.Contains(lines[l-1], anchor) {
					return true
				}
			}
			return false
		}
		var deadGhosts []string
		for i := range ct.Ghosts {
			ct.Ghosts[i].Dead = !has(ct.Ghosts[i].Anchor)
			if ct.Ghosts[i].Dead {
				deadGhosts = append(deadGhosts, ct.Ghosts[i].Var)
				u.notes = append(u.notes, fmt.Sprintf("ghost snapshot %s dropped: its anchor %q occurs nowhere in the function any more", ct.Ghosts[i].Var, ct.Ghosts[i].Anchor))
			}
		}
		for i := range ct.Asserts {
			a := &ct.Asserts[i]
			// only proof hints (labels starting with "lemma") may be dropped when their anchor is gone;
			// a property-carrying assert whose anchor vanished makes the unit undecided (reported)
			a.Dead = !has(a.Anchor) && strings.HasPrefix(a.Label, "lemma")
			why := fmt.Sprintf("its anchor %q occurs nowhere in the function any more", a.Anchor)
			for _, gv := range deadGhosts {
				if mentionsWord(a.Text, gv) {
					a.Dead = true
					why = "it mentions the dropped ghost snapshot " + gv
				}
			}
			if a.Dead {
				u.notes = append(u.notes, fmt.Sprintf("lemma assert [%s] dropped (proof hint only): %s", a.Label, why))
			}
		}
	}
	defer func() {
		if r := recover(); r != nil {
			if us, ok := r.(unsupported); ok {
				res.Unsupported = us.msg + " (at " + u.curPos + ")"
				res.Obs = nil
				return
			}
			// an internal error of the generator on this unit: the unit is undecided, never a crash
			res.Unsupported = fmt.Sprintf("internal error of the VC generator: %v (at %s)", r, u.curPos)
			res.Obs = nil
		}
	}()
	g.reg.emitFact = func(f string) { u.assumeStructural(Term{f, SBool}) }
	u.run()
	g.reg.emitFact = nil
	res.Obs = u.obs
	res.Assumed = u.assumed
	for k := range u.dropped {
		res.Dropped = append(res.Dropped, k)
	}
	sort.Strings(res.Dropped)
	res.Notes = u.notes
	for k := range u.inlined {
		res.Inlined = append(res.Inlined, shortUnit(k))
	}
	sort.Strings(res.Inlined)
	res.events = u.events
	res.initEv = u.initEv
	res.entryEnd = u.entryEnd
	for _, ob := range res.Obs {
		ob.Inputs = u.inputs
	}
	return res
}

func (g *Gen) findFunc(pkgPath, name string) *ssa.Function {
	sp := g.ssaPkgs[pkgPath]
	if sp == nil {
		return nil
	}
	closure := ""
	if i := strings.Index(name, "$"); i >= 0 {
		name, closure = name[:i], name[i:]
	}
	var fn *ssa.Function
	if i := strings.Index(name, "."); i >= 0 {
		tn, mn := name[:i], name[i+1:]
		o := sp.Pkg.Scope().Lookup(tn)
		if o == nil {
			return nil
		}
		for _, t := range []types.Type{o.Type(), types.NewPointer(o.Type())} {
			ms := g.prog.MethodSets.MethodSet(t)
			for j := 0; j < ms.Len(); j++ {
				if ms.At(j).Obj().Name() == mn {
					if f := g.prog.MethodValue(ms.At(j)); f != nil && f.Synthetic == "" {
						fn = f
					}
				}
			}
		}
	} else {
		fn = sp.Func(name)
	}
	if fn == nil {
		return nil
	}
	if closure != "" {
		for _, an := range fn.AnonFuncs {
			if an.Name() == fn.Name()+closure {
				return an
			}
		}
		return nil
	}
	return fn
}

func (u *UnitGen) run() {
	fn := u.fn
	reg := u.g.reg
	if fn.Blocks == nil {
		unsup("function has no body")
	}
	st := &State{reach: TTrue, vars: map[string]Term{}, epoch: map[string]int{}}
	fr := u.newFrame(fn, 0)
	fr.top = true
	fr.localNames = map[string]*ssa.Alloc{}
	fr.defers = nil
	fr.loopDefers = map[string]string{}
	fr.guardOrigin = map[ssa.Value]guardRef{}
	u.orderLoops(fr)

	// entry state
	u.top0 = u.get(st, "top", SInt)
	u.spawned0 = u.get(st, "G:spawned", SInt)
	u.assumeRaw(App(SBool, "<=", IntN(1), u.top0))
	env := &Env{u: u, vars: map[string]Val{}, cur: st, old: nil, pkgPath: u.contract.Pkg, fr: fr}
	for _, p := range fn.Params {
		so := reg.SortOf(p.Type())
		name := "p_" + mangle(p.Name())
		u.initEv = append(u.initEv, Event{Kind: EvConst, Name: name, Sort: so})
		t := Term{name, so}
		fr.vals[p] = t
		u.assumeType(st, t, p.Type())
		env.vars[p.Name()] = Val{T: t, Ty: p.Type()}
		u.inputs = append(u.inputs, NamedTerm{Name: p.Name(), Term: t, Type: p.Type().String()})
	}
	for _, fv := range fn.FreeVars {
		// closure unit: captured variables are heap cells
		name := "fv_" + mangle(fv.Name())
		u.initEv = append(u.initEv, Event{Kind: EvConst, Name: name, Sort: SInt})
		t := Term{name, SInt}
		fr.freeT[fv] = t
		fr.vals[fv] = t
		u.assumeRaw(And(App(SBool, "<", IntN(0), t), App(SBool, "<", t, u.top0)))
		u.nonNil[t.S] = true
	}
	if len(fn.FreeVars) > 1 {
		var ts []string
		for _, fv := range fn.FreeVars {
			ts = append(ts, fr.freeT[fv].S)
		}
		byType := map[string][]string{}
		for _, fv := range fn.FreeVars {
			k := fv.Type().String()
			byType[k] = append(byType[k], fr.freeT[fv].S)
		}
		for _, v := range byType {
			if len(v) > 1 {
				u.assumeRaw(Term{"(distinct " + strings.Join(v, " ") + ")", SBool})
			}
		}
	}
	fr.env = env
	// lock preconditions
	for _, h := range u.contract.Holds {
		expr, mode := h, "W"
		if i := strings.LastIndex(h, ":"); i >= 0 {
			expr, mode = h[:i], h[i+1:]
		}
		e, err := ParseExpr(expr)
		if err != nil {
			unsup("bad holds clause %q", h)
		}
		lk, ref := env.evalMutex(e)
		arr := u.get(st, lk, ArraySort(SInt, SInt))
		want := IntN(1)
		if mode == "W" {
			want = IntN(2)
		}
		u.setDef(st, lk, Store(arr, ref, want))
	}
	// every other mutex is not held by this call chain on entry: lock arrays start at 0
	// (assumed lazily, see lockInit)
	env.old = st
	// spec-level axioms about ghost functions (each is listed as an assumption)
	for _, ax := range u.g.specs.Axioms {
		usesGhost := false
		for name := range u.g.specs.GhostFns {
			if strings.Contains(ax.Text, name+"(") && u.contractMentions(name) {
				usesGhost = true
			}
		}
		if !usesGhost {
			continue
		}
		aenv := &Env{u: u, vars: map[string]Val{}, cur: st, old: st, pkgPath: ""}
		u.assumeRaw(aenv.evalBool(ax.E))
		u.assumed["axiom "+ax.Src] = ax.Text
	}
	var reqs []Term
	for _, c := range u.contract.Requires {
		t := env.evalBool(c.E)
		reqs = append(reqs, t)
		u.assumeRaw(t)
	}
	// vacuity: the preconditions are jointly satisfiable
	u.entryEnd = len(u.events)
	cover := u.oblige(st, "cover", "cover:requires", "preconditions are satisfiable", TTrue)
	if cover != nil {
		cover.Cover = true
		cover.Result = ""
		cover.Backend = ""
	}
	entry := st.clone()
	env.old = entry
	// register every state key the postconditions mention, so that joins of paths with
	// different region generations merge them explicitly
	u.preRegister(fn, env, entry)
	exits := u.execRegion(fr, fn.Blocks[0], nil, st, nil)
	nres := fn.Signature.Results().Len()
	for _, ab := range u.abnormal {
		for i := 0; i < nres; i++ {
			ab.results = append(ab.results, reg.Zero(fn.Signature.Results().At(i).Type()))
		}
		exits = append(exits, ab)
	}
	if len(exits) == 0 {
		u.note("function has no normal exit")
		return
	}
	var ins []edgeState
	for _, e := range exits {
		ins = append(ins, edgeState{e.st, TTrue})
	}
	final := u.merge("exit", ins)
	n := fn.Signature.Results().Len()
	var postFr *Frame
	if len(fn.FreeVars) > 0 {
		postFr = fr // closures: captured variables are resolved through the frame
	}
	post := &Env{u: u, vars: map[string]Val{}, cur: final, old: entry, pkgPath: u.contract.Pkg, fr: postFr}
	for k, v := range env.vars {
		post.vars[k] = v
	}
	for i := 0; i < n; i++ {
		t := exits[len(exits)-1].results[i]
		for j := len(exits) - 2; j >= 0; j-- {
			t = Ite(exits[j].st.reach, exits[j].results[i], t)
		}
		rt := fn.Signature.Results().At(i).Type()
		r := u.define(fmt.Sprintf("result%d", i), t)
		post.vars[fmt.Sprintf("result%d", i)] = Val{T: r, Ty: rt}
		if i == 0 {
			post.vars["result"] = Val{T: r, Ty: rt}
		}
	}
	u.curPos = "exit"
	if cv := u.oblige(final, "cover", "cover:exit", "a normal exit of the function is reachable under the assumptions made", TTrue); cv != nil {
		cv.Cover = true
		cv.Result, cv.Backend = "", ""
		cv.Goal = final.reach
	}
	// postconditions are checked exit by exit (the obligation is one, its goal has one part per
	// return): each part is a much smaller query than the merged exit state
	var exitEnvs []*Env
	if os.Getenv("GOVC_EXITS") != "" {
		for i, e := range exits {
			fmt.Fprintf(os.Stderr, "%s exit %d: %s\n", u.unit, i+1, e.pos)
		}
	}
	if len(exits) > 1 {
		for i, e := range exits {
			if !exitCovers {
				break
			}
			u.curPos = e.pos
			if cv := u.oblige(final, "cover", fmt.Sprintf("cover:exit#%d", i+1), "this return is reachable under the assumptions made (an unreachable return passes its postconditions vacuously)", TTrue); cv != nil {
				cv.Cover = true
				cv.ExitCover = true
				cv.Result, cv.Backend = "", ""
				cv.Goal = e.st.reach
			}
		}
		u.curPos = "exit"
		for _, e := range exits {
			pe := &Env{u: u, vars: map[string]Val{}, cur: e.st, old: entry, pkgPath: u.contract.Pkg, fr: postFr}
			for k, v := range env.vars {
				pe.vars[k] = v
			}
			for i := 0; i < n; i++ {
				rt := fn.Signature.Results().At(i).Type()
				pe.vars[fmt.Sprintf("result%d", i)] = Val{T: e.results[i], Ty: rt}
				if i == 0 {
					pe.vars["result"] = Val{T: e.results[i], Ty: rt}
				}
			}
			exitEnvs = append(exitEnvs, pe)
		}
	}
	unlE := 0
	for _, c := range u.contract.Ensures {
		lbl := c.Label
		if lbl == "" {
			unlE++
			lbl = fmt.Sprint(unlE)
		}
		if len(exitEnvs) == 0 {
			u.oblige(final, "ensures", "ensures#"+lbl, c.Text, post.evalBool(c.E))
			continue
		}
		var parts []Term
		for j, pe := range exitEnvs {
			parts = append(parts, Implies(exits[j].st.reach, pe.evalBool(c.E)))
		}
		ob := u.oblige(&State{reach: TTrue}, "ensures", "ensures#"+lbl, c.Text, And(parts...))
		if ob != nil && ob.Result == "" {
			ob.Parts = parts
			for _, e := range exits {
				ob.PartPos = append(ob.PartPos, e.pos)
			}
		}
	}
	u.frameObligations(entry, final, env)
	u.lockBalance(entry, final, env)
	for _, gu := range u.contract.Ghosts {
		if gu.Hits == 0 && !gu.Dead {
			unsup("ghost anchor %q matches no executed source line of the function (code moved?)", gu.Anchor)
		}
	}
	for _, a := range u.contract.Asserts {
		if a.Hits == 0 && !a.Dead {
			unsup("assert anchor %q matches no executed source line of the function (code moved?)", a.Anchor)
		}
	}
}

// frameObligations proves that nothing outside the assigns clause changed.
func (u *UnitGen) frameObligations(entry, final *State, env *Env) {
	var locs []loc
	for _, a := range u.contract.Assigns {
		locs = append(locs, env.withState(entry).evalLoc(a)...)
	}
	regionOK := map[string]bool{}
	for _, l := range locs {
		if l.region != "" {
			regionOK[l.region] = true
		}
	}
	for _, r := range u.g.specs.RegionOrd {
		ch, ok := final.vars["RC:"+r]
		if !ok || ch.S == "false" || regionOK[r] {
			continue
		}
		u.oblige(final, "frame", "frame:region "+r, "the state owned by region "+r+" is not modified (not in assigns)", Not(ch))
	}
	keys := make([]string, 0, len(final.vars))
	for k := range final.vars {
		keys = append(keys, k)
	}
	sort.Strings(keys)
	for _, k := range keys {
		if r := u.regionOf(k); r != "" && (regionOK[r] || final.epoch[r] != entry.epoch[r]) {
			continue // covered by the region obligation above
		}
		pfx := k[:strings.Index(k, ":")+1]
		switch pfx {
		case "H:", "C:", "MD:", "MV:", "SD:", "SL:", "RV:", "G:", "g:":
		default:
			continue
		}
		fin := final.vars[k]
		ini, ok := entry.vars[k]
		if !ok {
			ini = u.get(entry, k, u.varSort[k])
		}
		if fin.S == ini.S {
			continue
		}
		if k == "G:spawnedFn" || k == "G:spawnedArg0" {
			// travel with "spawned": allowed exactly when a spawn is allowed
			allowed := false
			for _, l := range locs {
				if l.key == k {
					allowed = true
				}
			}
			if !allowed {
				u.oblige(final, "frame", "frame:"+frameName(k), "no goroutine is spawned (not in assigns)", Eq(fin, ini))
			}
			continue
		}
		if k == "G:spawned" {
			allowed := false
			for _, l := range locs {
				if l.key == k {
					allowed = true
				}
			}
			if !allowed {
				u.oblige(final, "frame", "frame:"+frameName(k), "no goroutine is spawned (not in assigns)", Eq(fin, ini))
			}
			continue
		}
		var mine []loc
		whole := false
		for _, l := range locs {
			if l.key == k {
				mine = append(mine, l)
				if l.whole {
					whole = true
				}
			}
		}
		if whole {
			continue
		}
		so := u.varSort[k]
		if !strings.HasPrefix(string(so), "(Array ") || pfx == "G:" || pfx == "g:" {
			u.oblige(final, "frame", "frame:"+frameName(k), k+" is not in the assigns clause", Eq(fin, ini))
			continue
		}
		r := u.havoc("fr_r", keySort(so))
		var excl []Term
		var partialEx []Term
		hasPartial := false
		for _, l := range mine {
			if l.sub != nil {
				hasPartial = true
			}
		}
		var kk Term
		if hasPartial {
			kk = u.havoc("fr_k", keySort(elemSort(so)))
		}
		for _, l := range mine {
			if l.sub == nil {
				excl = append(excl, Not(Eq(r, *l.ref)))
			} else {
				partialEx = append(partialEx, And(Eq(r, *l.ref), Eq(kk, *l.sub)))
			}
		}
		same := Eq(Select(fin, r), Select(ini, r))
		if pfx == "MV:" {
			// map values matter only at keys present in the final domain
			dk := "MD:" + k[3:]
			dfin, ok := final.vars[dk]
			if !ok {
				dfin = u.get(final, dk, ArraySort(SInt, ArraySort(keySort(elemSort(so)), SBool)))
			}
			if !hasPartial {
				kk = u.havoc("fr_mk", keySort(elemSort(so)))
			}
			same = Implies(Select(Select(dfin, r), kk), Eq(Select(Select(fin, r), kk), Select(Select(ini, r), kk)))
		} else if hasPartial {
			same = Eq(Select(Select(fin, r), kk), Select(Select(ini, r), kk))
		}
		if kt, ok := u.mapKeyType[k]; ok && kk.S != "" {
			// only keys that are values of the map's key type exist
			same = Implies(u.typeFacts(final, kk, kt), same)
		}
		body := Or(append(partialEx, same)...)
		guard := And(append([]Term{App(SBool, "<", IntN(0), r), App(SBool, "<", r, u.top0)}, excl...)...)
		if keySort(so) != SInt {
			guard = And(excl...)
		}
		var txt []string
		for _, l := range mine {
			txt = append(txt, l.text)
		}
		u.oblige(final, "frame", "frame:"+frameName(k), fmt.Sprintf("%s changes only at {%s} (objects allocated by the call excepted)", frameName(k), strings.Join(txt, ", ")), Implies(guard, body))
	}
}

func frameName(k string) string {
	return strings.NewReplacer("H:", "", "C:", "cell ", "MD:", "mapdom ", "MV:", "mapval ", "SD:", "sent ", "SL:", "sentlen ", "RV:", "recvd ", "G:", "ghost ", "g:", "global ").Replace(k)
}

func (u *UnitGen) lockBalance(entry, final *State, env *Env) {
	acq := map[string]bool{}
	for _, a := range u.contract.Acquires {
		acq[a] = true
	}
	keys := make([]string, 0)
	for k := range final.vars {
		if strings.HasPrefix(k, "LK:") {
			keys = append(keys, k)
		}
	}
	sort.Strings(keys)
	for _, k := range keys {
		fin := final.vars[k]
		ini, ok := entry.vars[k]
		if !ok {
			ini = u.init[k]
		}
		if fin.S == ini.S {
			continue
		}
		r := u.havoc("lk_r", SInt)
		u.oblige(final, "lock", "lock:balance("+strings.TrimPrefix(k, "LK:")+")", "the function returns holding exactly the locks it entered with",
			Implies(And(App(SBool, "<", IntN(0), r), App(SBool, "<", r, u.top(final))), Eq(Select(fin, r), Select(ini, r))))
	}
}

// ---------------------------------------------------------------------------
// SMT script assembly

func (r *UnitResult) prelude(reg *SortReg) []string {
	var out []string
	out = append(out, reg.decls...)
	out = append(out, reg.StrDecls()...)
	for _, e := range r.initEv {
		out = append(out, eventText(e))
	}
	return out
}

func eventText(e Event) string {
	switch e.Kind {
	case EvDecl:
		return e.Raw
	case EvConst:
		return fmt.Sprintf("(declare-const %s %s)", quoteName(e.Name), e.Sort)
	case EvDefine:
		return fmt.Sprintf("(define-fun %s () %s %s)", quoteName(e.Name), e.Sort, e.Term.S)
	case EvAssume:
		return fmt.Sprintf("(assert %s)", e.Term.S)
	}
	return ""
}

func quoteName(n string) string { return n }

// QueryFor builds the standalone query for obligation ob.
func (r *UnitResult) QueryFor(ob *Obligation, withModel bool) string {
	var b strings.Builder
	b.WriteString("(set-option :produce-models true)\n(set-logic ALL)\n")
	for _, l := range r.prelude(r.reg) {
		b.WriteString(l)
		b.WriteString("\n")
	}
	goal0 := ob.Goal
	if len(ob.Parts) > 0 && ob.FailPart >= 0 && ob.FailPart < len(ob.Parts) {
		goal0 = ob.Parts[ob.FailPart]
	}
	onPath := r.reachCone(goal0.S, ob.Index)
	for i := 0; i < ob.Index; i++ {
		e := r.events[i]
		if ob.ModularFrom > 0 && i >= r.entryEnd && i < ob.ModularFrom && (e.Kind == EvOblig || (e.Kind == EvAssume && !e.Structural)) {
			continue
		}
		if e.Kind == EvOblig {
			if !e.Ob.Cover && !terminalKind(e.Ob.Kind) && !offPath(e.Ob.Goal.S, onPath) {
				fmt.Fprintf(&b, "(assert %s) ; assumed after %s\n", e.Ob.Goal.S, e.Ob.Name)
			}
			continue
		}
		if e.Kind == EvAssume && offPath(e.Term.S, onPath) {
			continue
		}
		if e.Scope != nil && e.Scope != ob {
			continue
		}
		b.WriteString(eventText(e))
		b.WriteString("\n")
	}
	if ob.Cover {
		fmt.Fprintf(&b, "(assert %s)\n(check-sat)\n", ob.Goal.S)
		return b.String()
	}
	goal := ob.Goal
	if len(ob.Parts) > 0 && ob.FailPart >= 0 && ob.FailPart < len(ob.Parts) {
		goal = ob.Parts[ob.FailPart]
	}
	fmt.Fprintf(&b, "(assert (not %s))\n(check-sat)\n", goal.S)
	if withModel {
		var ts []string
		for _, in := range ob.Inputs {
			ts = append(ts, in.Term.S)
		}
		if len(ts) > 0 {
			fmt.Fprintf(&b, "(get-value (%s))\n", strings.Join(ts, " "))
		}
		b.WriteString("(get-model)\n")
	}
	return b.String()
}

// reachCone returns the block-reachability symbols (reach_*) the formula depends on, directly or
// through the definitions emitted before event index end. After loop cutting the control-flow
// graph is acyclic and the reachability predicate of a block is defined from those of its
// predecessors, so the cone of an obligation's goal holds exactly the blocks that can lie on an
// execution path to it.
func (r *UnitResult) reachCone(formula string, end int) map[string]bool {
	if os.Getenv("GOVC_NOPRUNE") != "" {
		return nil
	}
	defs := map[string]string{}
	for i := 0; i < end && i < len(r.events); i++ {
		if e := r.events[i]; e.Kind == EvDefine {
			defs[e.Name] = e.Term.S
		}
	}
	seen := map[string]bool{}
	cone := map[string]bool{}
	var visit func(text string)
	visit = func(text string) {
		for _, id := range smtIdents(text) {
			if seen[id] {
				continue
			}
			seen[id] = true
			if strings.HasPrefix(id, "reach_") {
				cone[id] = true
			}
			if d, ok := defs[id]; ok {
				visit(d)
			}
		}
	}
	visit(formula)
	return cone
}

// offPath: the assumption has the shape (=> reach_X ...) for a block X that cannot lie on a path
// to the obligation being checked; it constrains other executions only and is left out of the
// standalone query (smaller queries, fewer irrelevant quantifier instantiations).
func offPath(term string, cone map[string]bool) bool {
	if cone == nil || !strings.HasPrefix(term, "(=> reach_") {
		return false
	}
	rest := term[4:]
	j := strings.IndexAny(rest, " )")
	if j < 0 {
		return false
	}
	return !cone[rest[:j]]
}

func smtIdents(s string) []string {
	var out []string
	i := 0
	for i < len(s) {
		c := s[i]
		if c == '(' || c == ')' || c == ' ' || c == '\n' || c == '\t' {
			i++
			continue
		}
		if c == '|' {
			j := strings.IndexByte(s[i+1:], '|')
			if j < 0 {
				break
			}
			out = append(out, s[i:i+j+2])
			i += j + 2
			continue
		}
		j := i
		for j < len(s) && s[j] != '(' && s[j] != ')' && s[j] != ' ' && s[j] != '\n' && s[j] != '\t' {
			j++
		}
		out = append(out, s[i:j])
		i = j
	}
	return out
}

// IncrementalScript checks all obligations of the unit in one solver run.
// ModularCuts lists the distinct modular-loop cut indices of the unit's obligations.
func (r *UnitResult) ModularCuts() []int {
	seen := map[int]bool{}
	var out []int
	for _, ob := range r.Obs {
		if ob.ModularFrom > 0 && !seen[ob.ModularFrom] {
			seen[ob.ModularFrom] = true
			out = append(out, ob.ModularFrom)
		}
	}
	sort.Ints(out)
	return out
}

// IncrementalScript builds one solver script. modular == 0: every obligation that is not
// tied to a modular loop, in the full context. modular == c: the obligations tied to the loop
// cut at event c, in the context of the entry assumptions and the events from c on.
func (r *UnitResult) IncrementalScript(quickMs int, modular int) (string, []*Obligation) {
	var b strings.Builder
	b.WriteString("(set-option :produce-models true)\n(set-logic ALL)\n")
	for _, l := range r.prelude(r.reg) {
		b.WriteString(l)
		b.WriteString("\n")
	}
	var order []*Obligation
	for i, e := range r.events {
		if modular > 0 && i >= r.entryEnd && i < modular && (e.Kind == EvOblig || (e.Kind == EvAssume && !e.Structural)) {
			continue
		}
		if e.Scope != nil {
			continue
		}
		if e.Kind == EvOblig {
			ob := e.Ob
			if ob.Result == "unsat" && ob.Backend == "syntactic" {
				continue
			}
			if ob.Kind == "check" {
				continue // standalone only (its scoped facts are not part of this script)
			}
			if ob.ModularFrom != modular {
				// checked in another script; in this one it is at most an assumption
				if !ob.Cover && !terminalKind(ob.Kind) && len(ob.Parts) == 0 && (modular == 0 || i >= modular) {
					fmt.Fprintf(&b, "(assert %s)\n", ob.Goal.S)
				}
				continue
			}
			if ob.Cover {
				// vacuity guards get a short budget: the question is only whether a contradiction is derivable
				fmt.Fprintf(&b, "(set-option :timeout 1500)\n(push 1)\n(assert %s)\n(check-sat)\n(pop 1)\n(set-option :timeout %d)\n", ob.Goal.S, quickMs)
			} else if len(ob.Parts) > 0 {
				for _, p := range ob.Parts {
					fmt.Fprintf(&b, "(push 1)\n(assert (not %s))\n(check-sat)\n(pop 1)\n", p.S)
				}
			} else if terminalKind(ob.Kind) {
				// obligations at the end of a path (postconditions, frames, invariant preservation)
				// are not needed as assumptions for anything that follows
				fmt.Fprintf(&b, "(push 1)\n(assert (not %s))\n(check-sat)\n(pop 1)\n", ob.Goal.S)
			} else {
				fmt.Fprintf(&b, "(push 1)\n(assert (not %s))\n(check-sat)\n(pop 1)\n(assert %s)\n", ob.Goal.S, ob.Goal.S)
			}
			order = append(order, ob)
			continue
		}
		b.WriteString(eventText(e))
		b.WriteString("\n")
	}
	return b.String(), order
}

func (u *UnitGen) preRegister(fn *ssa.Function, env *Env, entry *State) {
	u.dry++
	nEv, nObs := len(u.events), len(u.obs)
	saved := map[string]bool{}
	for k := range u.g.reg.factSeen {
		saved[k] = true
	}
	savedAx := map[string]bool{}
	for k := range u.axiomDone {
		savedAx[k] = true
	}
	defer func() { u.axiomDone = savedAx }()
	pe := &Env{u: u, vars: map[string]Val{}, cur: entry.clone(), old: entry, pkgPath: u.contract.Pkg}
	for k, v := range env.vars {
		pe.vars[k] = v
	}
	for i := 0; i < fn.Signature.Results().Len(); i++ {
		rt := fn.Signature.Results().At(i).Type()
		v := Val{T: u.g.reg.Zero(rt), Ty: rt}
		pe.vars[fmt.Sprintf("result%d", i)] = v
		if i == 0 {
			pe.vars["result"] = v
		}
	}
	for _, c := range u.contract.Ensures {
		func() {
			defer func() { recover() }()
			pe.eval(c.E)
		}()
	}
	u.dry--
	u.events = u.events[:nEv]
	u.obs = u.obs[:nObs]
	u.g.reg.factSeen = saved
}

// contractQuantifies reports whether a contract (with the predicates it uses) contains a quantifier.
func (g *Gen) contractQuantifies(ct *Contract) bool {
	seen := map[string]bool{}
	var walk func(e Expr) bool
	walk = func(e Expr) bool {
		switch x := e.(type) {
		case *EQuant:
			return true
		case *EOld:
			return walk(x.X)
		case *EUnary:
			return walk(x.X)
		case *EBinary:
			return walk(x.X) || walk(x.Y)
		case *ESel:
			return walk(x.X)
		case *EIndex:
			return walk(x.X) || walk(x.I)
		case *ETypeIs:
			return walk(x.X)
		case *ECall:
			for _, a := range x.Args {
				if walk(a) {
					return true
				}
			}
			if id, ok := x.Fun.(*EIdent); ok {
				if p, ok := g.specs.Preds[id.Name]; ok && !seen[id.Name] {
					seen[id.Name] = true
					return walk(p.Body)
				}
			}
			if sel, ok := x.Fun.(*ESel); ok {
				return walk(sel.X)
			}
		}
		return false
	}
	for _, c := range ct.Requires {
		if walk(c.E) {
			return true
		}
	}
	for _, c := range ct.Ensures {
		if walk(c.E) {
			return true
		}
	}
	for _, l := range ct.Loops {
		for _, c := range l.Invs {
			if walk(c.E) {
				return true
			}
		}
	}
	for _, a := range ct.Asserts {
		if walk(a.E) {
			return true
		}
	}
	return false
}

func terminalKind(k string) bool {
	switch k {
	case "ensures", "frame", "check", "lock":
		// lock-discipline obligations are judged where they stand; the lock state itself is tracked
		// concretely, so nothing that follows needs them as assumptions
		return true
	}
	return strings.HasPrefix(k, "inv-pres")
}

// contractMentions reports whether the unit's contract text (with the predicates it uses) mentions name.
func (u *UnitGen) contractMentions(name string) bool {
	seen := map[string]bool{}
	var mentions func(text string) bool
	mentions = func(text string) bool {
		if strings.Contains(text, name+"(") {
			return true
		}
		for pn, p := range u.g.specs.Preds {
			if !seen[pn] && strings.Contains(text, pn+"(") {
				seen[pn] = true
				if mentions(p.Text) {
					return true
				}
			}
		}
		return false
	}
	for _, c := range u.contract.Requires {
		if mentions(c.Text) {
			return true
		}
	}
	for _, c := range u.contract.Ensures {
		if mentions(c.Text) {
			return true
		}
	}
	for _, l := range u.contract.Loops {
		for _, c := range l.Invs {
			if mentions(c.Text) {
				return true
			}
		}
	}
	return false
}

func mentionsWord(text, w string) bool {
	for i := 0; ; {
		j := strings.Index(text[i:], w)
		if j < 0 {
			return false
		}
		j += i
		before := j == 0 || !isIdentPart(text[j-1])
		after := j+len(w) >= len(text) || !isIdentPart(text[j+len(w)])
		if before && after {
			return true
		}
		i = j + len(w)
	}
}

// recoversIntoResult: the entry block defers a closure that calls recover() and stores into a
// captured variable (the named result), so that a panic below turns into an ordinary return.
func recoversIntoResult(fn *ssa.Function) bool {
	if len(fn.Blocks) == 0 {
		return false
	}
	for _, in := range fn.Blocks[0].Instrs {
		d, ok := in.(*ssa.Defer)
		if !ok {
			continue
		}
		var cl *ssa.Function
		switch v := d.Call.Value.(type) {
		case *ssa.MakeClosure:
			cl, _ = v.Fn.(*ssa.Function)
		case *ssa.Function:
			cl = v
		}
		if cl == nil {
			continue
		}
		callsRecover, storesFree := false, false
		for _, b := range cl.Blocks {
			for _, i2 := range b.Instrs {
				if c, ok := i2.(*ssa.Call); ok {
					if bi, ok := c.Call.Value.(*ssa.Builtin); ok && bi.Name() == "recover" {
						callsRecover = true
					}
				}
				if st, ok := i2.(*ssa.Store); ok {
					if _, ok := st.Addr.(*ssa.FreeVar); ok {
						storesFree = true
					}
				}
			}
		}
		if callsRecover && storesFree {
			return true
		}
	}
	return false
}
