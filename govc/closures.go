package main

// Closure provenance: function values carry the identity of their code and the values of their
// captured variables, so that a call through a struct field whose contract says
// "closure F" is dispatched to the real function F instead of an assumed contract.
//
//   fncode(v)        Int  identity of the function a func value v was made from
//   fnenv_<F>_<i>(v)      value of the i-th captured variable of a closure of F (the value the variable had
//                         when the closure was made; emitted only when the variable is never assigned afterwards)
//
// Both are uninterpreted functions of the func value (a reference that is never mutated), so the
// facts assumed at the MakeClosure instruction survive every heap change.

import (
	"fmt"
	"go/types"
	"hash/fnv"
	"strings"

	"golang.org/x/tools/go/ssa"
	"golang.org/x/tools/go/ssa/ssautil"
)

// closureName: package-relative name of a closure's code: Outer$1, Type.Method$bound.
func closureName(fn *ssa.Function) (pkg, name string) {
	if fn.Parent() != nil {
		k := funcKey(fn)
		i := strings.LastIndex(k, "/")
		j := strings.Index(k[i+1:], ".")
		return k[:i+1+j], k[i+1+j+1:]
	}
	if strings.HasSuffix(fn.Name(), "$bound") {
		if o, ok := fn.Object().(*types.Func); ok {
			if recv := o.Type().(*types.Signature).Recv(); recv != nil {
				rt := recv.Type()
				if pt, ok := rt.(*types.Pointer); ok {
					rt = pt.Elem()
				}
				if n, ok := types.Unalias(rt).(*types.Named); ok && n.Obj().Pkg() != nil {
					return n.Obj().Pkg().Path(), n.Obj().Name() + "." + fn.Name()
				}
			}
		}
	}
	k := funcKey(fn)
	if i := strings.LastIndex(k, "/"); i >= 0 {
		if j := strings.Index(k[i+1:], "."); j >= 0 {
			return k[:i+1+j], k[i+1+j+1:]
		}
	}
	return "", k
}

func fnCodeID(pkg, name string) int64 {
	h := fnv.New32a()
	h.Write([]byte(pkg + "." + name))
	return int64(h.Sum32()&0x7fffffff) + 1
}

func (g *Gen) closureFn(pkg, name string) *ssa.Function {
	if g.closureIdx == nil {
		g.closureIdx = map[string]*ssa.Function{}
		for f := range ssautil.AllFunctions(g.prog) {
			for _, b := range f.Blocks {
				for _, in := range b.Instrs {
					if mc, ok := in.(*ssa.MakeClosure); ok {
						cf := mc.Fn.(*ssa.Function)
						p, n := closureName(cf)
						g.closureIdx[p+"."+n] = cf
					}
				}
			}
		}
	}
	return g.closureIdx[pkg+"."+name]
}

func fnCode(v Term) Term { return App(SInt, "fncode", v) }

func (u *UnitGen) fnEnv(fn *ssa.Function, i int, v Term) (Term, types.Type) {
	fv := fn.FreeVars[i]
	ty := fv.Type()
	if fn.Parent() != nil {
		// anonymous function: captured by reference, fv is a pointer to the variable
		ty = ty.(*types.Pointer).Elem()
	}
	so := u.g.reg.SortOf(ty)
	p, n := closureName(fn)
	name := fmt.Sprintf("fnenv_%s_%d", mangle(p+"."+n), i)
	u.g.reg.DeclFun(name, []Sort{SInt}, so)
	return App(so, name, v), ty
}

// immutableCapture: the captured variable (an Alloc of the enclosing function) is assigned at most once
// in the enclosing function, before the closure is made, and never by any of its anonymous functions.
func immutableCapture(b ssa.Value, mc *ssa.MakeClosure) bool {
	al, ok := b.(*ssa.Alloc)
	if !ok {
		return false
	}
	stores := 0
	for _, r := range *al.Referrers() {
		switch x := r.(type) {
		case *ssa.Store:
			if x.Addr == al {
				stores++
				if x.Block() == mc.Block() {
					before := false
					for _, in := range x.Block().Instrs {
						if in == ssa.Instruction(x) {
							before = true
							break
						}
						if in == ssa.Instruction(mc) {
							break
						}
					}
					if !before {
						return false
					}
				} else if !x.Block().Dominates(mc.Block()) {
					return false
				}
				if reachesAgain(mc.Block(), x.Block(), al.Block()) {
					return false // the store can run again after the closure was made (loop), on the same cell
				}
			} else {
				return false // address escapes into memory
			}
		case *ssa.UnOp, *ssa.DebugRef:
		case *ssa.MakeClosure:
			// captured: the closure must not store to it
			cf := x.Fn.(*ssa.Function)
			for i, bb := range x.Bindings {
				if bb == al && storesToFree(cf, cf.FreeVars[i]) {
					return false
				}
			}
		default:
			return false
		}
	}
	return stores <= 1
}

func storesToFree(fn *ssa.Function, fv *ssa.FreeVar) bool {
	for _, r := range *fv.Referrers() {
		switch x := r.(type) {
		case *ssa.UnOp, *ssa.DebugRef:
		case *ssa.MakeClosure:
			cf := x.Fn.(*ssa.Function)
			for i, bb := range x.Bindings {
				if bb == fv && storesToFree(cf, cf.FreeVars[i]) {
					return true
				}
			}
		default:
			return true
		}
	}
	return false
}

// closureFacts: assumed at a MakeClosure instruction for the new func value r.
func (u *UnitGen) closureFacts(fr *Frame, st *State, in *ssa.MakeClosure, r Term, cl *Closure) {
	u.g.reg.DeclFun("fncode", []Sort{SInt}, SInt)
	fn := cl.fn
	p, n := closureName(fn)
	u.assumeRaw(Eq(fnCode(r), IntN(fnCodeID(p, n))))
	for i, b := range in.Bindings {
		if fn.Parent() == nil {
			// bound method / thunk: captured by value
			if cl.bindA[i] == nil {
				ev, _ := u.fnEnv(fn, i, r)
				if ev.Sort == cl.bindT[i].Sort {
					u.assumeRaw(Eq(ev, cl.bindT[i]))
				}
			}
			continue
		}
		if !immutableCapture(b, in) {
			continue
		}
		ev, ty := u.fnEnv(fn, i, r)
		var cur Term
		if cl.bindA[i] != nil {
			cur = u.load(st, cl.bindA[i])
		} else {
			cur = u.load(st, &Addr{ref: cl.bindT[i], objT: ty, valT: ty})
		}
		if cur.Sort == ev.Sort {
			u.assume(st, Eq(ev, cur))
		}
	}
}

// dispatchClosure: a call through a func value whose field contract names the closure it holds.
func (u *UnitGen) dispatchClosure(fr *Frame, st *State, instr ssa.Instruction, c *ssa.CallCommon, ct *Contract, org string, fv Term) []Term {
	u.g.reg.DeclFun("fncode", []Sort{SInt}, SInt)
	pkg := ct.Pkg
	fn := u.g.closureFn(pkg, ct.ClosureOf)
	if fn == nil {
		unsup("fnfield %s: closure %s.%s is made nowhere in the program", org, pkg, ct.ClosureOf)
	}
	u.oblige(st, "safety", u.obName("closure:"+shortUnit(org)), "the function value in "+org+" is a closure of "+ct.ClosureOf, Eq(fnCode(fv), IntN(fnCodeID(pkg, ct.ClosureOf))))
	u.assume(st, Eq(fnCode(fv), IntN(fnCodeID(pkg, ct.ClosureOf))))
	u.assumed["closure dispatch "+shortUnit(org)] = "calls through " + org + " run the code of " + ct.ClosureOf + " (proved at each call from the closure facts recorded where the func value is made); a captured variable is read as the value it had when the closure was made, which is emitted only for variables never assigned afterwards (checked syntactically on go/ssa)"
	cl := &Closure{fn: fn}
	for i, f := range fn.FreeVars {
		ev, ty := u.fnEnv(fn, i, fv)
		cl.bindings = append(cl.bindings, f)
		cl.bindA = append(cl.bindA, nil)
		if fn.Parent() == nil {
			cl.bindT = append(cl.bindT, ev)
			continue
		}
		// re-materialise the captured variable as a local cell holding the captured value
		// (a local, not a heap cell: the heap is not written)
		u.envCtr++
		k := fmt.Sprintf("l:f%d.env%d.%s", fr.id, u.envCtr, mangle(f.Name()))
		u.varSort[k] = ev.Sort
		u.localTypes[k] = ty
		u.assumeType(st, ev, ty)
		u.set(st, k, ev)
		cl.bindA[i] = &Addr{local: k, valT: ty}
		cl.bindT = append(cl.bindT, Term{})
	}
	rs := u.staticCall(fr, st, instr, fn, c.Args, cl)
	if len(ct.Ghosts) > 0 {
		args := u.argTerms(fr, st, c.Args)
		env := u.contractEnv(ct, c.Signature(), nil, args, st, st)
		for i, r := range rs {
			env.vars[fmt.Sprintf("result%d", i)] = Val{T: r, Ty: c.Signature().Results().At(i).Type()}
		}
		// all updates read the state before any of them
		var vals []Term
		for _, gu := range ct.Ghosts {
			vals = append(vals, env.eval(gu.E).T)
		}
		for i, gu := range ct.Ghosts {
			if _, declared := u.g.specs.GhostVars[gu.Var]; !declared {
				unsup("fnfield %s: ghost update of undeclared ghost variable %s", org, gu.Var)
			}
			u.setDef(st, "G:"+gu.Var, vals[i])
		}
	}
	return rs
}

// reachesAgain: some path from the end of block from reaches block to without passing through the block
// that creates the cell (a new cell per pass).
func reachesAgain(from, to, cell *ssa.BasicBlock) bool {
	seen := map[*ssa.BasicBlock]bool{}
	work := append([]*ssa.BasicBlock{}, from.Succs...)
	for len(work) > 0 {
		b := work[len(work)-1]
		work = work[:len(work)-1]
		if seen[b] {
			continue
		}
		seen[b] = true
		if b == cell {
			continue
		}
		if b == to {
			return true
		}
		work = append(work, b.Succs...)
	}
	return false
}
