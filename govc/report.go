package main

import (
	"encoding/json"
	"fmt"
	"os"
	"path/filepath"
	"regexp"
	"sort"
	"strings"
	"sync/atomic"
	"time"
)

type KnownFinding struct {
	Property   string `json:"property"`
	Obligation string `json:"obligation"`
	Status     string `json:"status"` // known | fixed
	Commit     string `json:"commit,omitempty"`
	What       string `json:"what"`
	// WitnessSMT restricts a known entry to a class of failing inputs: an SMT
	// formula over the unit's entry-state symbols. The entry matches only if
	// the obligation has no counterexample outside the class.
	WitnessSMT string `json:"witness_smt,omitempty"`
	Witness    string `json:"witness,omitempty"`
}

// candidateReplays bounds the number of candidate-model replays per run (each costs a solver session and a go test)
var candidateReplays int

type propUnit struct {
	ct    *Contract
	kinds map[string]bool // nil = all kinds
}

// unitsForProp returns the contracts tagged with the property ("props C05 C11:lock").
func unitsForProp(g *Gen, prop string) []propUnit {
	var out []propUnit
	for _, k := range sortedKeys(g.specs.Contracts) {
		ct := g.specs.Contracts[k]
		if ct.Extern {
			continue
		}
		var pu *propUnit
		for _, p := range ct.Props {
			id, kind := p, ""
			if i := strings.Index(p, ":"); i >= 0 {
				id, kind = p[:i], p[i+1:]
			}
			if id != prop {
				continue
			}
			if pu == nil {
				pu = &propUnit{ct: ct}
				if kind != "" {
					pu.kinds = map[string]bool{}
				}
			}
			if kind == "" {
				pu.kinds = nil
			} else if pu.kinds != nil {
				pu.kinds[kind] = true
			}
		}
		if pu == nil {
			// lock discipline (C11) and panic freedom (C12) are checked on every unit under contract
			switch prop {
			case "C11":
				pu = &propUnit{ct: ct, kinds: map[string]bool{"lock": true}}
			case "C12":
				pu = &propUnit{ct: ct, kinds: map[string]bool{"safety": true}}
			}
		}
		if pu != nil {
			out = append(out, *pu)
		}
	}
	return out
}

func kindMatches(pu propUnit, ob *Obligation) bool {
	if pu.kinds == nil {
		return true
	}
	if pu.kinds[ob.Kind] {
		return true
	}
	// label-prefix selection: "C09:ensures#frame" style is not supported; kinds only
	for k := range pu.kinds {
		if strings.HasPrefix(ob.Name, k) {
			return true
		}
		// "#label": every obligation carrying that label (all loops' init/preservation, ensures, asserts)
		if strings.HasPrefix(k, "#") && (strings.HasSuffix(ob.Name, k) || strings.Contains(ob.Name, k+"#") || strings.Contains(ob.Name, ":"+k[1:]+"#")) {
			return true
		}
	}
	return ob.Kind == "cover"
}

type obReport struct {
	Name    string `json:"name"`
	Kind    string `json:"kind"`
	Result  string `json:"result"`
	Backend string `json:"backend"`
	Ms      int64  `json:"ms"`
	Clause  string `json:"clause,omitempty"`
}

func loadKnown(out string) []KnownFinding {
	var ks []KnownFinding
	data, err := os.ReadFile(filepath.Join(out, "known_findings.json"))
	if err != nil {
		return nil
	}
	var wrap struct {
		Findings []KnownFinding `json:"findings"`
	}
	if json.Unmarshal(data, &wrap) == nil {
		ks = wrap.Findings
	}
	return ks
}

func loadBaseline(out, prop string) []string {
	data, err := os.ReadFile(filepath.Join(out, "baseline", prop+".txt"))
	if err != nil {
		return nil
	}
	var names []string
	for _, l := range strings.Split(string(data), "\n") {
		l = strings.TrimSpace(l)
		if l != "" && !strings.HasPrefix(l, "#") {
			names = append(names, l)
		}
	}
	return names
}

func writeEvidence(out, prop string, ev map[string]any) {
	os.MkdirAll(filepath.Join(out, "evidence"), 0o755)
	data, _ := json.MarshalIndent(ev, "", " ")
	os.WriteFile(filepath.Join(out, "evidence", prop+".json"), append(data, '\n'), 0o644)
}

func seedFromEnv() int {
	var s int
	fmt.Sscan(os.Getenv("VERIF_SEED"), &s)
	return s
}

func reportLoadFailure(prop, tier, out string, err error, wall float64) {
	rp := filepath.Join(out, "replay", prop)
	os.MkdirAll(rp, 0o755)
	file := filepath.Join(rp, "load-failure.json")
	data, _ := json.MarshalIndent(map[string]any{"property": prop, "obligation": "load", "reason": "the repository or its contracts could not be loaded; the property is undecided", "verifier_output": err.Error()}, "", " ")
	os.WriteFile(file, data, 0o644)
	writeEvidence(out, prop, map[string]any{"property_id": prop, "tier": tier, "seed": seedFromEnv(), "level": "proof", "wall_s": wall, "violations": 1,
		"coverage": map[string]any{"obligations": 0, "discharged": 0, "checker_cmd": "govc", "trusted_base": []string{}, "evaluations": 1, "distinct_nontrivial": 0, "explanation": "load failure: " + err.Error()}})
	fmt.Printf("VIOLATION property=%s replay=%s no-failing-input-found\n", prop, file)
}

func runProperty(g *Gen, prop, tier, out string, cfg SolverCfg, t0 time.Time) int {
	cfgDir := cfgDirOf(out)
	pus := unitsForProp(g, prop)
	if len(pus) == 0 {
		reportLoadFailure(prop, tier, out, fmt.Errorf("no unit is tagged with property %s", prop), time.Since(t0).Seconds())
		return 1
	}
	var cts []*Contract
	for _, pu := range pus {
		cts = append(cts, pu.ct)
	}
	tSolve := time.Now()
	rs := verifyUnits(g, cts, cfg)
	solveS := time.Since(tSolve).Seconds()

	known := loadKnown(cfgDir)
	baseline := loadBaseline(cfgDir, prop)
	rpDir := filepath.Join(out, "replay", prop)
	os.RemoveAll(rpDir)

	var reports []obReport
	seen := map[string]bool{}
	total, discharged := 0, 0
	covers, coversOK := 0, 0
	assumptions := map[string]bool{}
	var functions, trusted, unsupportedUnits []string
	backends := map[string]int{}
	var solverMs int64
	type viol struct {
		ob     *Obligation
		unit   *UnitResult
		reason string
	}
	var viols []viol
	var knownHits []string
	var samples []any
	inlinedAll := map[string]bool{}

	puOf := map[*Contract]propUnit{}
	for _, pu := range pus {
		puOf[pu.ct] = pu
	}
	for _, r := range rs {
		pu := puOf[r.ct]
		if r.Trusted {
			trusted = append(trusted, r.Unit)
			assumptions["trusted contract (body not verified): "+r.Unit+" — "+pu.ct.Why] = true
			// structural guards of a trusted unit (e.g. "recovers") are obligations like any other
			for _, ob := range r.Obs {
				seen[baselineName(ob.FullName())] = true
				total++
				backends[ob.Backend]++
				reports = append(reports, obReport{ob.FullName(), ob.Kind, ob.Result, ob.Backend, ob.Ms, trunc(ob.Clause, 160)})
				if ob.Result == "unsat" {
					discharged++
				} else {
					viols = append(viols, viol{ob, r, ob.Detail})
				}
			}
			continue
		}
		if r.Unsupported != "" {
			unsupportedUnits = append(unsupportedUnits, r.Unit+": "+r.Unsupported)
			ob := &Obligation{Unit: r.Unit, Name: "unit", Kind: "unit", Clause: "the unit is within the verifier's subset and its contract matches the code", Result: "unsupported", Detail: r.Unsupported}
			viols = append(viols, viol{ob, r, r.Unsupported})
			continue
		}
		functions = append(functions, r.Unit)
		for k, v := range r.Assumed {
			assumptions[k+": "+v] = true
		}
		for _, d := range r.Dropped {
			assumptions["dropped semantics: "+d] = true
		}
		for _, n := range r.Notes {
			assumptions["note ("+r.Unit+"): "+n] = true
		}
		for _, n := range r.Inlined {
			inlinedAll[n] = true
		}
		for _, ob := range r.Obs {
			if !kindMatches(pu, ob) {
				continue
			}
			if only := onlyProp(ob.Name); only != "" && only != prop {
				continue // a clause labelled [Cxx.name] is an obligation of property Cxx alone
			}
			seen[baselineName(ob.FullName())] = true
			solverMs += ob.Ms
			if ob.Cover {
				if ob.Info {
					continue
				}
				if ob.ExitCover {
					if ob.Result == "unsat" {
						assumptions["note ("+r.Unit+"): the return at "+ob.Pos+" is unreachable under the contracts in force (its postconditions hold vacuously)"] = true
					}
					continue
				}
				covers++
				if ob.Result == "sat" {
					coversOK++
				} else if ob.Result == "unsat" {
					if ob.CoverPre != nil && ob.CoverPre.Result != "sat" {
						// the call site itself is dead code under the preconditions: not a vacuity problem
						coversOK++
						continue
					}
					viols = append(viols, viol{ob, r, "vacuity: the assumptions made up to this point are contradictory, obligations after it would pass vacuously"})
				}
				continue
			}
			total++
			backends[ob.Backend]++
			reports = append(reports, obReport{ob.FullName(), ob.Kind, ob.Result, ob.Backend, ob.Ms, trunc(ob.Clause, 160)})
			if ob.Result == "unsat" {
				discharged++
				if len(samples) < 6 && (ob.Kind == "ensures" || ob.Kind == "inv-pres" || ob.Kind == "frame" || ob.Kind == "pre") {
					samples = append(samples, map[string]any{"obligation": ob.FullName(), "clause": ob.Clause, "result": ob.Result, "backend": ob.Backend, "smt_goal_bytes": len(ob.Goal.S)})
				}
				continue
			}
			viols = append(viols, viol{ob, r, ""})
		}
	}
	// baseline: every expected obligation must have been regenerated (not while the baseline itself is being rewritten after
	// a change of the contracts: GOVC_WRITE_BASELINE replaces the list when everything generated is discharged)
	if os.Getenv("GOVC_WRITE_BASELINE") != "" {
		baseline = nil
	}
	for _, n := range baseline {
		if !seen[baselineName(n)] {
			ob := &Obligation{Unit: n[:unitSep(n)], Name: n[min(unitSep(n)+1, len(n)):], Kind: "baseline", Clause: "obligation listed in baseline/" + prop + ".txt is generated again", Result: "missing"}
			found := false
			for _, v := range viols {
				if v.ob.Kind == "unit" && v.ob.Unit == ob.Unit {
					found = true // already reported as an unsupported unit
				}
			}
			if !found {
				viols = append(viols, viol{ob, nil, "an obligation that was discharged on the baseline tree is no longer generated (contract no longer matches the code)"})
			}
		}
	}

	nViol := 0
	for _, v := range viols {
		ob := v.ob
		full := ob.FullName()
		// known finding?
		matched := false
		for _, k := range known {
			if k.Property != prop || k.Obligation != full || k.Status != "known" {
				continue
			}
			if k.WitnessSMT == "" {
				matched = true
			} else if v.unit != nil && ob.Goal.S != "" {
				matched = onlyWithinWitness(v.unit, ob, k.WitnessSMT, cfg)
			}
			if matched {
				fmt.Printf("KNOWN-FINDING: property=%s %s: %s\n", prop, full, k.What)
				knownHits = append(knownHits, full)
				// a recorded finding is itemised on its own: it is neither counted as an obligation of
				// the proof claim nor as discharged
				total--
				break
			}
		}
		if matched {
			continue
		}
		nViol++
		os.MkdirAll(rpDir, 0o755)
		file := filepath.Join(rpDir, mangle(full)+".json")
		rep := map[string]any{
			"property":   prop,
			"obligation": full,
			"kind":       ob.Kind,
			"clause":     ob.Clause,
			"position":   ob.Pos,
			"result":     ob.Result,
			"backend":    ob.Backend,
			"detail":     ob.Detail,
		}
		if v.reason != "" {
			rep["reason"] = v.reason
		}
		suffix := " no-failing-input-found"
		if ob.Model != "" {
			rep["verifier_output"] = trunc2(ob.Model, 20000)
			if v.unit != nil {
				rr := Replay(g, v.unit, ob, cfg, rpDir)
				rep["replay"] = rr
				if rr.Status == "confirmed" {
					suffix = ""
				}
			}
		} else if ob.Result != "unsupported" && ob.Result != "missing" {
			rep["verifier_output"] = "no model: solvers answered " + ob.Result + " (" + ob.Detail + ")"
			// the solver may still hold a candidate model: it is tried on the real code, and counts only if the
			// concrete input passes the unit's preconditions and then violates the clause (replay.go)
			if v.unit != nil && (ob.Result == "unknown" || ob.Result == "timeout") && (ob.Kind == "ensures" || ob.Kind == "safety") && candidateReplays < 3 {
				candidateReplays++
				rr := Replay(g, v.unit, ob, cfg, rpDir)
				rep["replay"] = rr
				if rr.Status == "confirmed" {
					suffix = ""
					rep["verifier_output"] = "the solvers answered " + ob.Result + "; the candidate model of z3 5.1.0 was built as a concrete input, passes the unit's preconditions and violates the clause on the real code"
				}
			}
		}
		// a committed witness for this obligation (a concrete failing input found earlier and kept
		// under /verif/witness) is replayed on the current tree
		if suffix != "" && v.unit != nil && v.unit.ct != nil {
			wfs := []string{filepath.Join(cfgDir, "witness", mangle(full)+"_test.go")}
			if ob.Kind == "unit" || ob.Kind == "baseline" {
				// the unit as a whole is undecided: every committed witness of that unit is tried
				more, _ := filepath.Glob(filepath.Join(cfgDir, "witness", mangle(ob.Unit)+"_*_test.go"))
				wfs = append(wfs, more...)
			}
			for _, wf := range wfs {
				if _, err := os.Stat(wf); err != nil || suffix == "" {
					continue
				}
				outp, ran := runReplayTest(g.repo, v.unit.ct.Pkg, wf)
				rr := ReplayResult{Status: "not-reproduced", TestFile: wf, Output: trunc2(outp, 6000), Reason: "committed witness"}
				if ran && (strings.Contains(outp, "REPLAY the call panicked") || strings.Contains(outp, "REPLAY clause violated")) {
					rr.Status = "confirmed"
					suffix = ""
				}
				rep["replay"] = rr
			}
		}
		data, _ := json.MarshalIndent(rep, "", " ")
		os.WriteFile(file, data, 0o644)
		fmt.Printf("VIOLATION property=%s replay=%s%s\n", prop, file, suffix)
		fmt.Printf("  obligation %s: %s [%s] %s\n", full, ob.Result, trunc(ob.Clause, 120), trunc(ob.Detail+v.reason, 200))
	}

	var as []string
	for k := range assumptions {
		as = append(as, k)
	}
	sort.Strings(as)
	as = append(as,
		"sequential semantics: goroutine interleaving, channel blocking and mutex blocking are not modelled (DESIGN.md 2.6)",
		"integers are mathematical with explicit wrap-around at every arithmetic result and narrowing conversion (no machine arithmetic treated as mathematical)",
		"slices are value-semantic (append copies); slice==nil is len==0",
		"partial correctness: termination is not proved",
		"trusted base: go/packages+go/types+go/ssa (x/tools v0.50.0), the govc SSA->SMT translation, the SMT solvers")
	var inl []string
	for k := range inlinedAll {
		inl = append(inl, k)
	}
	sort.Strings(inl)
	sort.Strings(functions)
	if len(samples) == 0 && len(reports) > 0 {
		samples = append(samples, reports[0])
	}
	cov := map[string]any{
		"obligations":              total,
		"discharged":               discharged,
		"checker_cmd":              "/verif/check " + prop + " --tier " + tier,
		"trusted_base":             []string{"go/ssa NaiveForm (x/tools v0.50.0)", "govc VC generator", "z3 5.1.0", "z3 4.8.12", "cvc5 1.0.3"},
		"functions_under_contract": functions,
		"trusted_contracts":        trusted,
		"unsupported_units":        unsupportedUnits,
		"inlined_from_real_source": inl,
		"backends":                 backends,
		"solver_time_s":            float64(solverMs) / 1000.0,
		"solve_wall_s":             solveS,
		"vacuity":                  map[string]any{"cover_checks": covers, "satisfiable": coversOK},
		"known_findings_matched":   knownHits,
		"solver_cache_hits":        atomic.LoadInt64(&cacheHits),
		"baseline_obligations":     len(baseline),
		"samples":                  samples,
		"obligation_results":       reports,
	}
	ev := map[string]any{
		"property_id": prop,
		"tier":        tier,
		"seed":        seedFromEnv(),
		"level":       "proof",
		"coverage":    cov,
		"assumptions": as,
		"wall_s":      time.Since(t0).Seconds(),
		"violations":  nViol,
	}
	writeEvidence(out, prop, ev)
	fmt.Printf("property %s: %d/%d obligations discharged over %d functions (%d trusted contracts), %d cover checks, %d known findings, %d violations, %.1fs\n",
		prop, discharged, total, len(functions), len(trusted), covers, len(knownHits), nViol, time.Since(t0).Seconds())
	if os.Getenv("GOVC_WRITE_BASELINE") != "" && nViol == 0 {
		var names []string
		for n := range seen {
			if baselineKind(n) {
				names = append(names, n)
			}
		}
		sort.Strings(names)
		os.MkdirAll(filepath.Join(out, "baseline"), 0o755)
		os.WriteFile(filepath.Join(out, "baseline", prop+".txt"), []byte(strings.Join(names, "\n")+"\n"), 0o644)
	}
	if nViol > 0 {
		return 1
	}
	return 0
}

func trunc2(s string, n int) string {
	if len(s) > n {
		return s[:n] + "\n...[truncated]"
	}
	return s
}

// onlyWithinWitness reports whether every counterexample of ob satisfies the witness formula.
func onlyWithinWitness(r *UnitResult, ob *Obligation, witness string, cfg SolverCfg) bool {
	q := r.QueryFor(ob, false)
	q = strings.Replace(q, "(check-sat)\n", "(assert (not "+witness+"))\n(check-sat)\n", 1)
	dir := filepath.Join(cfg.WorkDir, mangle(r.Unit))
	os.MkdirAll(dir, 0o755)
	file := filepath.Join(dir, mangle(ob.Name)+".witness.smt2")
	os.WriteFile(file, []byte(q), 0o644)
	for _, s := range solvers {
		out, err := runSolver(s, file, cfg.FallbackMs, cfg.FallbackMs+5000)
		if err != nil {
			continue
		}
		for _, l := range strings.Split(out, "\n") {
			l = strings.TrimSpace(l)
			if l == "unsat" {
				return true
			}
			if l == "sat" {
				return false
			}
		}
	}
	return false
}

// cfgDirOf: known findings and baselines are always read from /verif (or VERIF_CFG), never from a scratch output directory.
func cfgDirOf(out string) string {
	if d := os.Getenv("VERIF_CFG"); d != "" {
		return d
	}
	return out
}

// baselineKind: only obligations that come from contract clauses (postconditions, loop
// invariants, anchored asserts) are listed in the baseline. Automatically generated safety,
// frame, lock and cover obligations are numbered by occurrence and legitimately change with
// harmless edits of the code, so their absence is not an alarm.
var backEdgeRe = regexp.MustCompile(`/inv-pres\.b\d+#`)

// baselineName drops the back-edge ordinal from invariant-preservation obligations: a loop that
// gains or loses a "continue" keeps satisfying the same baseline entry.
func baselineName(full string) string {
	return backEdgeRe.ReplaceAllString(full, "/inv-pres#")
}

func baselineKind(full string) bool {
	i := unitSep(full)
	if i >= len(full) {
		return false
	}
	n := full[i+1:]
	if strings.HasPrefix(n, "guard:") {
		return true
	}
	if strings.HasPrefix(n, "at:") && !strings.HasPrefix(n, "at:lemma") {
		return true // property-carrying anchored assert (proof hints are labelled lemma-*)
	}
	if strings.HasPrefix(n, "loop") && strings.Contains(n, "#lemma") {
		return false // scaffolding invariant of an auxiliary loop (e.g. building a message): may come and go with refactorings
	}
	return strings.HasPrefix(n, "ensures#") || (strings.HasPrefix(n, "loop") && strings.Contains(n, "/inv-") && !strings.Contains(n, "#auto"))
}

// unitSep returns the index of the "/" that separates the unit name from the obligation name
// in "pkg/path.Unit/obligation" (the package part may itself contain slashes): the first "/"
// after the first ".". It returns len(full) when there is none.
func unitSep(full string) int {
	d := strings.Index(full, ".")
	if d < 0 {
		d = 0
	}
	if i := strings.Index(full[d:], "/"); i >= 0 {
		return d + i
	}
	return len(full)
}

var onlyPropRe = regexp.MustCompile(`[#.](C[0-9]{2,3})\.[A-Za-z]`)

// onlyProp: a clause label of the form Cxx.name ties the obligation to that property only.
func onlyProp(name string) string {
	if m := onlyPropRe.FindStringSubmatch(name); m != nil {
		return m[1]
	}
	return ""
}
