package main

// Contract files: comment-only Go files (build tag verif) in the repository
// holding //@ lines, and .gvc spec files under /verif/spec holding the same
// clauses without the //@ prefix (assumed contracts of dependencies, spec
// functions, ghost functions).

import (
	"fmt"
	"os"
	"path/filepath"
	"regexp"
	"strconv"
	"strings"
)

type Clause struct {
	Label string
	Text  string
	E     Expr
	Src   string // file:line
}

type LoopSpec struct {
	K       int
	Anchor  string
	Invs    []Clause
	Modular bool // obligations dominated by the loop are proved from the invariants alone
}

type GhostUpdate struct {
	Anchor string // source text that must occur on the line of the instruction
	Var    string
	Text   string
	E      Expr
	Src    string
	Hits   int
	Dead   bool // the anchor text occurs nowhere in the function
}

type AssertAt struct {
	Anchor string
	Label  string
	Text   string
	E      Expr
	Src    string
	Hits   int
	Dead   bool // anchor (or a ghost snapshot it mentions) is gone: the lemma is dropped
	Check  bool // "check at": proved where it stands but not used as an assumption by what follows
}

type Contract struct {
	Asserts    []AssertAt
	Pkg        string // import path
	Func       string // isNewMaster | Server.runElection | RIB.canResolve$1
	Requires   []Clause
	Ensures    []Clause
	Assigns    []Expr
	AssignsTxt []string
	HasAssigns bool
	Loops      map[int]*LoopSpec
	NoAlloc    bool
	Trusted    bool   // contract is assumed, body not verified
	Recovers   string // non-empty: the function must recover from panics of its callees (checked structurally)
	Extern     bool   // dependency: assumed
	Inline     bool
	Ghosts     []GhostUpdate
	Holds      []string // mutexes held on entry (and exit): "r.mu:W"
	Acquires   []string
	Src        string
	Props      []string // properties this unit serves (informational)
	Why        string   // for trusted/extern: justification text
	ClosureOf  string   // fnfield: the field only ever holds nil or a closure of this function (pkg-relative name, e.g. NewRIBHolder$1)
}

func (c *Contract) Key() string { return c.Pkg + "." + c.Func }

type PredParam struct{ Name, Type string }

type Pred struct {
	Name   string
	Params []PredParam
	Body   Expr
	Text   string
	Pkg    string // package whose scope resolves type names ("" = spec-level)
}

type GhostFn struct {
	Name string
	Args []string // sorts or Go type names
	Res  string
}

type GuardDecl struct {
	Pkg    string
	Struct string   // struct type name
	Mutex  string   // field name of the mutex
	Fields []string // guarded field names
}

type FnField struct {
	Pkg      string
	Name     string // Struct.field or package var
	Contract *Contract
}

type Specs struct {
	Contracts  map[string]*Contract // key pkgpath.Func
	Preds      map[string]*Pred
	GhostFns   map[string]*GhostFn
	GhostVars  map[string]string // name -> sort/type
	Guards     []GuardDecl
	PathGuards []PathGuard
	FnFields   map[string]*Contract // key pkgpath.Struct.field
	Inlines    map[string]bool      // key pkgpath.Func
	Axioms     []Clause             // spec-level assumptions about ghost functions
	Regions    map[string][]string  // region name -> state-key glob patterns
	RegionOrd  []string
	Errors     []string
}

func NewSpecs() *Specs {
	return &Specs{Contracts: map[string]*Contract{}, Preds: map[string]*Pred{}, GhostFns: map[string]*GhostFn{}, GhostVars: map[string]string{}, FnFields: map[string]*Contract{}, Inlines: map[string]bool{}, Regions: map[string][]string{}}
}

var labelRe = regexp.MustCompile(`^(requires|ensures|invariant)\[([A-Za-z0-9_.:-]+)\]`)

// LoadContractFile parses one file. pkgPath is the import path for //@ files in
// the repository; for .gvc files units are introduced by "extern <path>.<Func>"
// or "package <path>".
func (s *Specs) LoadContractFile(path, pkgPath string, isGo bool) {
	data, err := os.ReadFile(path)
	if err != nil {
		s.Errors = append(s.Errors, err.Error())
		return
	}
	lines := strings.Split(string(data), "\n")
	// join continuation lines: a logical line starts with a keyword.
	type ll struct {
		text string
		n    int
	}
	var logical []ll
	for i, raw := range lines {
		t := strings.TrimSpace(raw)
		if isGo {
			if !strings.HasPrefix(t, "//@") {
				continue
			}
			t = strings.TrimSpace(t[3:])
		} else {
			if j := strings.Index(t, "#"); j == 0 {
				continue
			}
		}
		if t == "" {
			continue
		}
		first := t
		if j := strings.IndexAny(t, " \t["); j >= 0 {
			first = t[:j]
		}
		switch first {
		case "unit", "requires", "ensures", "assigns", "loop", "ghost", "at", "trusted", "recovers", "inline", "extern", "pred", "ghostfn", "package", "guarded_by", "guarded_path", "holds", "acquires", "props", "why", "fnfield", "ghostvar", "region", "assert", "check", "axiom", "closure":
			logical = append(logical, ll{t, i + 1})
		default:
			if len(logical) == 0 {
				s.Errors = append(s.Errors, fmt.Sprintf("%s:%d: continuation without clause", path, i+1))
				continue
			}
			logical[len(logical)-1].text += " " + t
		}
	}
	var cur *Contract
	curPkg := pkgPath
	errf := func(n int, f string, a ...any) {
		s.Errors = append(s.Errors, fmt.Sprintf("%s:%d: %s", path, n, fmt.Sprintf(f, a...)))
	}
	for _, l := range logical {
		src := fmt.Sprintf("%s:%d", filepath.Base(path), l.n)
		kw, rest := l.text, ""
		if j := strings.IndexAny(l.text, " \t"); j >= 0 {
			kw, rest = l.text[:j], strings.TrimSpace(l.text[j+1:])
		}
		label := ""
		if m := labelRe.FindStringSubmatch(kw); m != nil {
			kw, label = m[1], m[2]
		}
		switch kw {
		case "package":
			curPkg = rest
		case "unit", "extern", "fnfield":
			name := rest
			pk := curPkg
			if kw == "extern" {
				// full path: last dot before the function (and optional receiver)
				// syntax: extern <pkgpath> <Func>
				parts := strings.Fields(rest)
				if len(parts) != 2 {
					errf(l.n, "extern wants: extern <pkgpath> <Func>")
					continue
				}
				pk, name = parts[0], parts[1]
			}
			cur = &Contract{Pkg: pk, Func: name, Loops: map[int]*LoopSpec{}, Src: src, Extern: kw == "extern"}
			if kw == "fnfield" {
				s.FnFields[cur.Key()] = cur
			} else {
				if _, dup := s.Contracts[cur.Key()]; dup {
					errf(l.n, "duplicate contract for %s", cur.Key())
				}
				s.Contracts[cur.Key()] = cur
			}
		case "trusted":
			if cur != nil {
				cur.Trusted = true
				cur.Why = rest
			}
		case "recovers":
			// recovers <why>: the (trusted) function must install a deferred recover that turns a
			// panic of its callees into an error result; checked on the SSA of the real function
			if cur != nil {
				cur.Recovers = rest
				if cur.Recovers == "" {
					cur.Recovers = "panics of the callees are converted into an error"
				}
			}
		case "why":
			if cur != nil {
				cur.Why = rest
			}
		case "closure":
			if cur != nil {
				cur.ClosureOf = strings.TrimSpace(rest)
			}
		case "ghost":
			// ghost <var> = <expr>: (fnfield with a closure clause) update after the dispatched call returns
			if cur == nil {
				errf(l.n, "clause outside unit")
				continue
			}
			eq := strings.Index(rest, "=")
			if eq < 0 {
				errf(l.n, "ghost update needs '='")
				continue
			}
			et := strings.TrimSpace(rest[eq+1:])
			e, err := ParseExpr(et)
			if err != nil {
				errf(l.n, "%v", err)
				continue
			}
			cur.Ghosts = append(cur.Ghosts, GhostUpdate{Anchor: "", Var: strings.TrimSpace(rest[:eq]), Text: et, E: e, Src: src})
		case "inline":
			if rest != "" {
				parts := strings.Fields(rest)
				if len(parts) == 2 {
					s.Inlines[parts[0]+"."+parts[1]] = true
				} else {
					s.Inlines[curPkg+"."+rest] = true
				}
			} else if cur != nil {
				cur.Inline = true
			}
		case "props":
			if cur != nil {
				cur.Props = strings.Fields(strings.ReplaceAll(rest, ",", " "))
			}
		case "requires", "ensures":
			if cur == nil {
				errf(l.n, "clause outside unit")
				continue
			}
			e, err := ParseExpr(rest)
			if err != nil {
				errf(l.n, "%v", err)
				continue
			}
			c := Clause{Label: label, Text: rest, E: e, Src: src}
			if kw == "requires" {
				cur.Requires = append(cur.Requires, c)
			} else {
				cur.Ensures = append(cur.Ensures, c)
			}
		case "assigns":
			if cur == nil {
				errf(l.n, "clause outside unit")
				continue
			}
			cur.HasAssigns = true
			if rest == "nothing" {
				continue
			}
			for _, part := range splitTop(rest, ',') {
				part = strings.TrimSpace(part)
				e, err := ParseExpr(part)
				if err != nil {
					errf(l.n, "%v", err)
					continue
				}
				cur.Assigns = append(cur.Assigns, e)
				cur.AssignsTxt = append(cur.AssignsTxt, part)
			}
		case "loop":
			// loop <k> [at "text"] invariant[label] expr
			if cur == nil {
				errf(l.n, "clause outside unit")
				continue
			}
			f := strings.Fields(rest)
			if len(f) < 2 {
				errf(l.n, "bad loop clause")
				continue
			}
			k, err := strconv.Atoi(f[0])
			if err != nil {
				errf(l.n, "bad loop ordinal")
				continue
			}
			r2 := strings.TrimSpace(rest[len(f[0]):])
			anchor := ""
			if strings.HasPrefix(r2, "at ") {
				r2 = strings.TrimSpace(r2[3:])
				if len(r2) == 0 || r2[0] != '"' {
					errf(l.n, "anchor must be quoted")
					continue
				}
				j := strings.Index(r2[1:], `"`)
				anchor = r2[1 : 1+j]
				r2 = strings.TrimSpace(r2[j+2:])
			}
			lbl := ""
			kw2 := r2
			if j := strings.IndexAny(r2, " \t"); j >= 0 {
				kw2, r2 = r2[:j], strings.TrimSpace(r2[j+1:])
			}
			if m := labelRe.FindStringSubmatch(kw2); m != nil {
				kw2, lbl = m[1], m[2]
			}
			if kw2 == "modular" {
				ls := cur.Loops[k]
				if ls == nil {
					ls = &LoopSpec{K: k}
					cur.Loops[k] = ls
				}
				ls.Modular = true
				if anchor != "" {
					ls.Anchor = anchor
				}
				continue
			}
			if kw2 != "invariant" {
				errf(l.n, "expected 'invariant' in loop clause, got %q", kw2)
				continue
			}
			e, err := ParseExpr(r2)
			if err != nil {
				errf(l.n, "%v", err)
				continue
			}
			ls := cur.Loops[k]
			if ls == nil {
				ls = &LoopSpec{K: k}
				cur.Loops[k] = ls
			}
			if anchor != "" {
				ls.Anchor = anchor
			}
			ls.Invs = append(ls.Invs, Clause{Label: lbl, Text: r2, E: e, Src: src})
		case "at":
			// at "<anchor>" ghost <var> = <expr>
			if cur == nil {
				errf(l.n, "clause outside unit")
				continue
			}
			if len(rest) == 0 || rest[0] != '"' {
				errf(l.n, "anchor must be quoted")
				continue
			}
			j := strings.Index(rest[1:], `"`)
			anchor := rest[1 : 1+j]
			r2 := strings.TrimSpace(rest[j+2:])
			if !strings.HasPrefix(r2, "ghost ") {
				errf(l.n, "expected 'ghost' after anchor")
				continue
			}
			r2 = strings.TrimSpace(r2[6:])
			eq := strings.Index(r2, "=")
			if eq < 0 {
				errf(l.n, "ghost update needs '='")
				continue
			}
			v := strings.TrimSpace(r2[:eq])
			et := strings.TrimSpace(r2[eq+1:])
			e, err := ParseExpr(et)
			if err != nil {
				errf(l.n, "%v", err)
				continue
			}
			cur.Ghosts = append(cur.Ghosts, GhostUpdate{Anchor: anchor, Var: v, Text: et, E: e, Src: src})
		case "assert", "check":
			// assert at "<anchor>" [label] expr
			if cur == nil {
				errf(l.n, "clause outside unit")
				continue
			}
			r2 := strings.TrimSpace(rest)
			if !strings.HasPrefix(r2, "at ") {
				errf(l.n, "assert wants: assert at \"anchor\" [label] expr")
				continue
			}
			r2 = strings.TrimSpace(r2[3:])
			if len(r2) == 0 || r2[0] != '"' {
				errf(l.n, "anchor must be quoted")
				continue
			}
			j := strings.Index(r2[1:], `"`)
			anchor := r2[1 : 1+j]
			r2 = strings.TrimSpace(r2[j+2:])
			lbl := ""
			if strings.HasPrefix(r2, "[") {
				k := strings.Index(r2, "]")
				lbl = r2[1:k]
				r2 = strings.TrimSpace(r2[k+1:])
			}
			e, err := ParseExpr(r2)
			if err != nil {
				errf(l.n, "%v", err)
				continue
			}
			cur.Asserts = append(cur.Asserts, AssertAt{Anchor: anchor, Label: lbl, Text: r2, E: e, Src: src, Check: kw == "check"})
		case "holds":
			if cur != nil {
				cur.Holds = append(cur.Holds, strings.Fields(strings.ReplaceAll(rest, ",", " "))...)
			}
		case "acquires":
			if cur != nil {
				cur.Acquires = append(cur.Acquires, strings.Fields(strings.ReplaceAll(rest, ",", " "))...)
			}
		case "pred":
			// pred Name(a T, b U) = expr
			eq := strings.Index(rest, "=")
			op, cp := strings.Index(rest, "("), strings.Index(rest, ")")
			if eq < 0 || op < 0 || cp < op || eq < cp {
				errf(l.n, "bad pred")
				continue
			}
			p := &Pred{Name: strings.TrimSpace(rest[:op]), Text: strings.TrimSpace(rest[eq+1:]), Pkg: curPkg}
			for _, prm := range splitTop(rest[op+1:cp], ',') {
				f := strings.Fields(prm)
				if len(f) == 0 {
					continue
				}
				if len(f) != 2 {
					errf(l.n, "bad pred param %q", prm)
					continue
				}
				p.Params = append(p.Params, PredParam{f[0], f[1]})
			}
			e, err := ParseExpr(p.Text)
			if err != nil {
				errf(l.n, "%v", err)
				continue
			}
			p.Body = e
			s.Preds[p.Name] = p
		case "ghostfn":
			// ghostfn name(T1, T2) R
			op, cp := strings.Index(rest, "("), strings.LastIndex(rest, ")")
			if op < 0 || cp < op {
				errf(l.n, "bad ghostfn")
				continue
			}
			g := &GhostFn{Name: strings.TrimSpace(rest[:op]), Res: strings.TrimSpace(rest[cp+1:])}
			for _, a := range splitTop(rest[op+1:cp], ',') {
				if a = strings.TrimSpace(a); a != "" {
					g.Args = append(g.Args, a)
				}
			}
			s.GhostFns[g.Name] = g
		case "region":
			eq := strings.Index(rest, "=")
			if eq < 0 {
				errf(l.n, "region name = patterns")
				continue
			}
			name := strings.TrimSpace(rest[:eq])
			if _, ok := s.Regions[name]; !ok {
				s.RegionOrd = append(s.RegionOrd, name)
			}
			for _, pat := range strings.Split(rest[eq+1:], ",") {
				if pat = strings.TrimSpace(pat); pat != "" {
					s.Regions[name] = append(s.Regions[name], pat)
				}
			}
		case "axiom":
			e, err := ParseExpr(rest)
			if err != nil {
				errf(l.n, "%v", err)
				continue
			}
			s.Axioms = append(s.Axioms, Clause{Label: label, Text: rest, E: e, Src: src})
		case "ghostvar":
			f := strings.Fields(rest)
			if len(f) != 2 {
				errf(l.n, "ghostvar name sort")
				continue
			}
			s.GhostVars[f[0]] = f[1]
		case "guarded_by":
			// guarded_by Struct.mutex: f1, f2
			c := strings.Index(rest, ":")
			if c < 0 {
				errf(l.n, "bad guarded_by")
				continue
			}
			sm := strings.Split(strings.TrimSpace(rest[:c]), ".")
			if len(sm) != 2 {
				errf(l.n, "guarded_by wants Struct.mutex")
				continue
			}
			g := GuardDecl{Pkg: curPkg, Struct: sm[0], Mutex: sm[1]}
			for _, f := range strings.Split(rest[c+1:], ",") {
				if f = strings.TrimSpace(f); f != "" {
					g.Fields = append(g.Fields, f)
				}
			}
			s.Guards = append(s.Guards, g)
		case "guarded_path":
			// guarded_path Struct.mutex: f1.f2.table, ...  : the contents of the maps reached from a
			// Struct through these field chains are protected by Struct.mutex
			c := strings.Index(rest, ":")
			sm := strings.Split(strings.TrimSpace(rest[:max(c, 0)]), ".")
			if c < 0 || len(sm) != 2 {
				errf(l.n, "guarded_path wants Struct.mutex: chain, ...")
				continue
			}
			g := PathGuard{Pkg: curPkg, Struct: sm[0], Mutex: sm[1]}
			for _, f := range strings.Split(rest[c+1:], ",") {
				if f = strings.TrimSpace(f); f != "" {
					g.Chains = append(g.Chains, strings.Split(f, "."))
				}
			}
			s.PathGuards = append(s.PathGuards, g)
		default:
			errf(l.n, "unknown clause %q", kw)
		}
	}
}

// PathGuard: maps reached from a struct through a chain of fields are protected by its mutex.
type PathGuard struct {
	Pkg, Struct, Mutex string
	Chains             [][]string
}

// splitTop splits on sep at paren depth 0.
func splitTop(s string, sep byte) []string {
	var out []string
	d := 0
	last := 0
	inStr := byte(0)
	for i := 0; i < len(s); i++ {
		c := s[i]
		if inStr != 0 {
			if c == inStr {
				inStr = 0
			}
			continue
		}
		switch c {
		case '"', '`':
			inStr = c
		case '(', '[':
			d++
		case ')', ']':
			d--
		default:
			if c == sep && d == 0 {
				out = append(out, s[last:i])
				last = i + 1
			}
		}
	}
	out = append(out, s[last:])
	return out
}
