package main

import (
	"fmt"
	"go/types"
	"sort"
	"strings"

	"golang.org/x/tools/go/ssa"
)

// State is the symbolic state at a program point. Every component (locals,
// heap arrays, map arrays, ghost variables, lockset, allocation frontier) is
// a named variable whose current value is an SMT term.
type State struct {
	reach Term
	vars  map[string]Term
	epoch map[string]int // region -> generation; keys of a region not in vars denote "<key>@<epoch>"
}

func (s *State) clone() *State {
	n := &State{reach: s.reach, vars: make(map[string]Term, len(s.vars)), epoch: make(map[string]int, len(s.epoch))}
	for k, v := range s.vars {
		n.vars[k] = v
	}
	for k, v := range s.epoch {
		n.epoch[k] = v
	}
	return n
}

func globMatch(pat, s string) bool {
	parts := strings.Split(pat, "*")
	if len(parts) == 1 {
		return pat == s
	}
	if !strings.HasPrefix(s, parts[0]) {
		return false
	}
	s = s[len(parts[0]):]
	for i := 1; i < len(parts)-1; i++ {
		j := strings.Index(s, parts[i])
		if j < 0 {
			return false
		}
		s = s[j+len(parts[i]):]
	}
	return strings.HasSuffix(s, parts[len(parts)-1])
}

// regionOf returns the region owning a state key ("" if none).
func (u *UnitGen) regionOf(key string) string {
	if r, ok := u.regionCache[key]; ok {
		return r
	}
	res := ""
	for _, name := range u.g.specs.RegionOrd {
		for _, pat := range u.g.specs.Regions[name] {
			if globMatch(pat, key) {
				res = name
			}
		}
	}
	u.regionCache[key] = res
	return res
}

// havocRegion forgets everything about the keys owned by region r.
func (u *UnitGen) havocRegion(st *State, r string) {
	u.epochCtr++
	st.epoch[r] = u.epochCtr
	for k := range st.vars {
		if u.regionOf(k) == r {
			delete(st.vars, k)
		}
	}
	for _, tr := range u.trackers {
		tr.written["region:"+r] = true
	}
	st.vars["RC:"+r] = TTrue
	u.varSort["RC:"+r] = SBool
}

// UnitGen generates the verification conditions of one unit.
type UnitGen struct {
	envCtr   int
	g        *Gen
	unit     string
	fn       *ssa.Function
	contract *Contract
	events   []Event
	initEv   []Event // declarations of initial-state variables (emitted first)
	init     map[string]Term
	varSort  map[string]Sort
	fresh    map[string]int
	obCtr    map[string]int
	nframes  int
	trackers []*tracker
	dry      int
	assumed  map[string]string // assumption name -> description
	inputs   []NamedTerm
	obs      []*Obligation
	top0     Term
	spawned0 Term // G:spawned at entry
	notes    []string
	curPos   string

	localTypes     map[string]types.Type
	nonNil         map[string]bool
	closureAt      map[string]*Closure
	edgeGuard      map[edgeKey]Term
	inlined        map[string]bool
	callCtr        map[string]int
	dropped        map[string]bool
	fresh0         map[string]bool
	regionCache    map[string]string
	epochCtr       int
	loopFrames     int
	newNames       map[string]bool
	newDefs        map[string]string // definitions of the names in newNames that are define-funs
	pure           int
	topBlock       *ssa.BasicBlock
	topFrame       *Frame
	entryEnd       int
	ghostLocals    map[string]Val
	abnormal       []exit
	defs           map[string]string // defined name -> definition text
	patSafe        map[string]bool
	selfForCall    *Val
	closureForCall *Closure
	keyType        map[string]types.Type
	mapKeyType     map[string]types.Type
	quantified     bool
	pendingAxioms  []pendingAxiom
	calleeRes      map[string]bool // pointers returned by contract calls
	activeLoops    []*activeLoop
	pendingFresh   []pendingFresh
	freshCtr       int
	postAxioms     []pendingAxiom
	postTyped      []typedVal
	typedFresh     []typedVal
	loadLog        map[string]loadedArr
	axiomDone      map[string]bool
	axiomConds     []string               // branch conditions selecting the array version being axiomatised
	termOrigin     map[string]*pathOrigin // guarded_path tracking (by term)
	mapGuard       map[string]guardRef    // map values whose contents are protected by a mutex
	assertDone     map[string]bool
	assertCtr      map[string]int
}

func (u *UnitGen) freshName(base string) string {
	base = mangle(base)
	u.fresh[base]++
	n := fmt.Sprintf("%s!%d", base, u.fresh[base])
	if u.newNames != nil {
		u.newNames[n] = true
	}
	return n
}

func (u *UnitGen) emit(e Event) {
	if u.pure > 0 {
		return // evaluating a contract expression: terms only, no events
	}
	u.events = append(u.events, e)
}

// declare a fresh unconstrained constant.
func (u *UnitGen) havoc(base string, so Sort) Term {
	if u.pure > 0 {
		unsup("a method used in a contract expression is not a pure function of the state (%s)", base)
	}
	n := u.freshName(base)
	u.emit(Event{Kind: EvConst, Name: n, Sort: so})
	t := Term{n, so}
	u.nilMapFact(t)
	return t
}

// nilMapFact: a fresh map-domain array maps the nil map to the empty domain.
func (u *UnitGen) nilMapFact(t Term) {
	s := string(t.Sort)
	if strings.HasPrefix(s, "(Array Int (Array ") && strings.HasSuffix(s, " Bool))") {
		u.assumeStructural(Eq(Select(t, IntN(0)), ConstArray(elemSort(t.Sort), TFalse)))
	}
}

// define names a term (keeps formulas linear in size).
func (u *UnitGen) define(base string, t Term) Term {
	if len(t.S) < 40 && !strings.Contains(t.S, " ") {
		return t
	}
	if u.pure > 0 {
		return t
	}
	n := u.freshName(base)
	u.emit(Event{Kind: EvDefine, Name: n, Sort: t.Sort, Term: t})
	if u.defs == nil {
		u.defs = map[string]string{}
	}
	u.defs[n] = t.S
	if u.termOrigin != nil {
		// a name for a value reached along a guarded path is reached along the same path
		u.inheritGuardedPath(Term{n, t.Sort}, t)
	}
	if u.newDefs != nil {
		u.newDefs[n] = t.S
	}
	return Term{n, t.Sort}
}

func (u *UnitGen) assume(st *State, t Term) {
	if t.S == "true" {
		return
	}
	u.emit(Event{Kind: EvAssume, Term: Implies(st.reach, t)})
}

func (u *UnitGen) assumeRaw(t Term) {
	if t.S == "true" {
		return
	}
	u.emit(Event{Kind: EvAssume, Term: t})
}

// assumeStructural records a fact about typing, allocation or an axiom instance. Such facts hold
// independently of the program path and are kept when a modular loop drops earlier assumptions.
func (u *UnitGen) assumeStructural(t Term) {
	if t.S == "true" {
		return
	}
	u.emit(Event{Kind: EvAssume, Term: t, Structural: true})
}

// oblige records a proof obligation: reach => goal.
func (u *UnitGen) oblige(st *State, kind, name, clause string, goal Term) *Obligation {
	if u.dry > 0 {
		return nil
	}
	full := Implies(st.reach, goal)
	ob := &Obligation{Unit: u.unit, Name: name, Kind: kind, Clause: clause, Goal: full, Pos: u.curPos}
	if full.S == "true" {
		ob.Result = "unsat"
		ob.Backend = "syntactic"
	}
	ob.Index = len(u.events)
	if u.topFrame != nil && u.topBlock != nil {
		for _, li := range u.topFrame.loops {
			if li.cutIndex > 0 && li.header.Dominates(u.topBlock) && li.cutIndex > ob.ModularFrom {
				ob.ModularFrom = li.cutIndex
			}
		}
	}
	u.emit(Event{Kind: EvOblig, Ob: ob})
	u.obs = append(u.obs, ob)
	return ob
}

func (u *UnitGen) obName(kind string) string {
	u.obCtr[kind]++
	return fmt.Sprintf("%s#%d", kind, u.obCtr[kind])
}

// get reads a state variable, creating its initial value lazily.
func (u *UnitGen) get(st *State, key string, so Sort) Term {
	if v, ok := st.vars[key]; ok {
		return v
	}
	ep := 0
	if r := u.regionOf(key); r != "" {
		ep = st.epoch[r]
	}
	ikey := key
	if ep != 0 {
		ikey = fmt.Sprintf("%s@e%d", key, ep)
	}
	if v, ok := u.init[ikey]; ok {
		return v
	}
	if so == "" {
		so = u.varSort[key]
	}
	u.varSort[key] = so
	if strings.HasPrefix(key, "RC:") || (strings.HasPrefix(key, "D:") && so == SBool) {
		// region-changed flags and "this defer statement was executed" flags start false
		u.init[ikey] = TFalse
		return TFalse
	}
	if ep != 0 {
		n := mangle(key) + fmt.Sprintf("@e%d", ep)
		u.initEv = append(u.initEv, Event{Kind: EvConst, Name: n, Sort: so})
		t := Term{n, so}
		u.init[ikey] = t
		u.heapAxiom(st, key, t)
		if strings.HasPrefix(key, "MD:") {
			u.initEv = append(u.initEv, Event{Kind: EvAssume, Term: Eq(Select(t, IntN(0)), ConstArray(elemSort(so), TFalse))})
		}
		return t
	}
	if strings.HasPrefix(key, "LK:") {
		t := ConstArray(so, IntN(0))
		u.init[key] = t
		return t
	}
	if strings.HasPrefix(key, "DU:") {
		t := ConstArray(so, TFalse)
		u.init[key] = t
		return t
	}
	n := mangle(key) + "@0"
	u.initEv = append(u.initEv, Event{Kind: EvConst, Name: n, Sort: so})
	t := Term{n, so}
	u.init[key] = t
	if key != "top" {
		u.heapAxiom(st, key, t)
	}
	if strings.HasPrefix(key, "MD:") {
		u.initEv = append(u.initEv, Event{Kind: EvAssume, Term: Eq(Select(t, IntN(0)), ConstArray(elemSort(so), TFalse))})
	}
	return t
}

// tracker records what a loop body writes (dry run).
type writeRef struct {
	ref   Term
	fresh bool // the object was allocated inside the loop
}

type tracker struct {
	written   map[string]bool
	allocs    map[string]bool       // refs allocated inside the loop
	calleeRes map[string]bool       // pointers returned by contract calls inside the loop
	nset      map[string]int        // writes per key
	nmark     map[string]int        // writes per key whose target object is known
	refs      map[string][]writeRef // target objects per key
	claimed   map[string]bool       // keys written through a callee result (freshness claimed, checked in the real run)
	silent    bool
}

func newTracker() *tracker {
	return &tracker{written: map[string]bool{}, allocs: map[string]bool{}, calleeRes: map[string]bool{}, claimed: map[string]bool{}, nset: map[string]int{}, nmark: map[string]int{}, refs: map[string][]writeRef{}}
}

// markStore announces that the next set(key) writes index ref of array key.
func (u *UnitGen) markStore(key string, ref Term) {
	for _, tr := range u.trackers {
		tr.nmark[key]++
		tr.refs[key] = append(tr.refs[key], writeRef{ref, tr.allocs[ref.S] || tr.calleeRes[ref.S]})
		if tr.calleeRes[ref.S] {
			tr.claimed[key] = true
		}
	}
	if u.dry == 0 && u.calleeRes[ref.S] {
		for _, al := range u.activeLoops {
			if al.keys[key] && al.li.blocks[al.fr.curBlock] {
				u.pendingFresh = append(u.pendingFresh, pendingFresh{key, ref, al})
			}
		}
	}
}

// activeLoop: a cut loop whose frame for some heap arrays claims that objects handed back by
// callees inside the body are new (allocated after the loop head); every write to such an array
// through a callee result inside the body carries the obligation that this is so.
type activeLoop struct {
	li      *loopInfo
	fr      *Frame
	headTop Term
	keys    map[string]bool
}

type pendingFresh struct {
	key string
	ref Term
	al  *activeLoop
}

// markStoreFresh announces that the next set(key) only affects objects allocated inside every
// enclosing tracked loop (used when an inner loop's cut havocs an array it only writes at
// objects allocated in that inner loop).
func (u *UnitGen) markStoreFresh(key string) {
	for _, tr := range u.trackers {
		tr.nmark[key]++
		tr.refs[key] = append(tr.refs[key], writeRef{Term{}, true})
	}
}

func (u *UnitGen) set(st *State, key string, v Term) {
	if _, ok := u.varSort[key]; !ok {
		u.varSort[key] = v.Sort
	}
	for _, tr := range u.trackers {
		tr.written[key] = true
		tr.nset[key]++
	}
	st.vars[key] = v
	if len(u.pendingFresh) > 0 {
		var rest []pendingFresh
		for _, pf := range u.pendingFresh {
			if pf.key != key {
				rest = append(rest, pf)
				continue
			}
			u.freshCtr++
			u.oblige(st, "loop-frame", fmt.Sprintf("loop%d/frame-fresh#%d", pf.al.li.ordinal, u.freshCtr),
				"an object handed back by a callee and written inside the loop body was allocated after the loop head (the loop frame relies on it)",
				App(SBool, ">=", pf.ref, pf.al.headTop))
		}
		u.pendingFresh = rest
	}
}

// setDef stores a (possibly large) term under a fresh name.
func (u *UnitGen) setDef(st *State, key string, v Term) {
	u.set(st, key, u.define(key, v))
}

type edgeState struct {
	st   *State
	cond Term
}

func (u *UnitGen) merge(label string, ins []edgeState) *State {
	if len(ins) == 1 {
		s := ins[0].st.clone()
		s.reach = u.define("reach_"+label, And(s.reach, ins[0].cond))
		return s
	}
	guards := make([]Term, len(ins))
	for i, e := range ins {
		guards[i] = u.define("edge_"+label, And(e.st.reach, e.cond))
	}
	out := &State{vars: map[string]Term{}, epoch: map[string]int{}}
	out.reach = u.define("reach_"+label, Or(guards...))
	for _, e := range ins {
		for r := range e.st.epoch {
			out.epoch[r] = -1
		}
	}
	keys := map[string]bool{}
	regionChanged := map[string]bool{}
	for r := range out.epoch {
		same := true
		for _, e := range ins {
			if e.st.epoch[r] != ins[0].st.epoch[r] {
				same = false
			}
		}
		if same {
			out.epoch[r] = ins[0].st.epoch[r]
		} else {
			u.epochCtr++
			out.epoch[r] = u.epochCtr
			regionChanged[r] = true
		}
	}
	// keys of a region whose generation differs between the incoming paths: every key known so
	// far must be merged explicitly (an absent key means "<key>@<epoch of that path>")
	for k := range u.varSort {
		if r := u.regionOf(k); r != "" && regionChanged[r] {
			keys[k] = true
		}
	}
	for _, e := range ins {
		for k := range e.st.vars {
			keys[k] = true
		}
	}
	ks := make([]string, 0, len(keys))
	for k := range keys {
		ks = append(ks, k)
	}
	sort.Strings(ks)
	for _, k := range ks {
		vals := make([]Term, len(ins))
		same := true
		for i, e := range ins {
			v, ok := e.st.vars[k]
			if !ok {
				// not set on this path: its (epoch-dependent) initial value
				v = u.get(e.st, k, u.varSort[k])
			}
			vals[i] = v
			if i > 0 && vals[i].S != vals[0].S {
				same = false
			}
		}
		if same {
			out.vars[k] = vals[0]
			continue
		}
		t := vals[len(vals)-1]
		for i := len(vals) - 2; i >= 0; i-- {
			t = Ite(guards[i], vals[i], t)
		}
		out.vars[k] = u.define("m_"+k, t)
	}
	return out
}

// ---------------------------------------------------------------------------
// heap keys

func (u *UnitGen) fieldKey(structT types.Type, i int) (string, Sort) {
	st := structT.Underlying().(*types.Struct)
	f := st.Field(i)
	k := fmt.Sprintf("H:%s.%s", shortTypeName(structT), f.Name())
	u.keyType[k] = f.Type()
	return k, ArraySort(SInt, u.g.reg.SortOf(f.Type()))
}

func (u *UnitGen) cellKey(t types.Type) (string, Sort) {
	k := "C:" + shortTypeName(t)
	u.keyType[k] = t
	return k, ArraySort(SInt, u.g.reg.SortOf(t))
}

// heapAxiom states that every element of a heap array is a well-typed value of its Go
// type (ranges of integers, pointers below the allocation frontier). It is emitted only
// in units whose contracts quantify, where per-term facts cannot reach bound variables.
func (u *UnitGen) heapAxiom(st *State, key string, arr Term) {
	if !u.quantified || u.pure > 0 {
		return
	}
	if strings.HasPrefix(key, "MD:") {
		// keys present in a map are values of its key type
		kt, ok := u.mapKeyType[key]
		if !ok {
			return
		}
		b, isB := kt.Underlying().(*types.Basic)
		if !isB || b.Info()&types.IsInteger == 0 {
			return
		}
		if u.axiomDone == nil {
			u.axiomDone = map[string]bool{}
		}
		if u.axiomDone[arr.S+"|"+strings.Join(u.axiomConds, "&")] || strings.Contains(arr.S, " ") {
			return
		}
		u.axiomDone[arr.S+"|"+strings.Join(u.axiomConds, "&")] = true
		if !u.patternSafe(arr.S) {
			// a merged version (ite of arrays): state the axiom for each version it is built from,
			// under the condition that selects that version
			if c, a, b, ok := iteParts(u.defs[arr.S]); ok {
				u.axiomConds = append(u.axiomConds, c)
				u.heapAxiom(st, key, Term{a, arr.Sort})
				u.axiomConds[len(u.axiomConds)-1] = "(not " + c + ")"
				u.heapAxiom(st, key, Term{b, arr.Sort})
				u.axiomConds = u.axiomConds[:len(u.axiomConds)-1]
			}
			return
		}
		kv := Term{"hx_k", SInt}
		sel := fmt.Sprintf("(select (select %s hx_r) hx_k)", arr.S)
		u.assumeStructural(Term{fmt.Sprintf("(forall ((hx_r Int) (hx_k Int)) (! (=> %s %s) :pattern (%s)))", u.underAxiomConds(sel), u.typeFacts(st, kv, kt).S, sel), SBool})
		return
	}
	ty, ok := u.keyType[key]
	if !ok {
		return
	}
	if u.axiomDone == nil {
		u.axiomDone = map[string]bool{}
	}
	if u.axiomDone[arr.S+"|"+strings.Join(u.axiomConds, "&")] || strings.Contains(arr.S, " ") {
		return
	}
	u.axiomDone[arr.S+"|"+strings.Join(u.axiomConds, "&")] = true
	if !u.patternSafe(arr.S) {
		// a merged version (ite of arrays): state the axiom for each version it is built from, under
		// the condition that selects that version. (A version created on one branch is not bounded
		// by the allocation frontier of the other branch: stating its axiom unconditionally with the
		// merged frontier made the other branch contradictory.)
		if c, a, b, ok := iteParts(u.defs[arr.S]); ok {
			u.axiomConds = append(u.axiomConds, c)
			u.heapAxiom(st, key, Term{a, arr.Sort})
			u.axiomConds[len(u.axiomConds)-1] = "(not " + c + ")"
			u.heapAxiom(st, key, Term{b, arr.Sort})
			u.axiomConds = u.axiomConds[:len(u.axiomConds)-1]
		}
		return
	}
	if strings.HasPrefix(key, "MV:") {
		ks := keySort(elemSort(arr.Sort))
		el := Term{fmt.Sprintf("(select (select %s hx_r) hx_k)", arr.S), elemSort(elemSort(arr.Sort))}
		f := u.typeFacts(st, el, ty)
		if f.S == "true" {
			return
		}
		u.assumeStructural(Term{fmt.Sprintf("(forall ((hx_r Int) (hx_k %s)) (! %s :pattern (%s)))", ks, u.underAxiomCondsImp(u.allocGuard(st, f.S)), el.S), SBool})
		return
	}
	if !strings.HasPrefix(key, "H:") && !strings.HasPrefix(key, "C:") {
		return
	}
	el := Term{fmt.Sprintf("(select %s hx_r)", arr.S), elemSort(arr.Sort)}
	f := u.typeFacts(st, el, ty)
	if f.S == "true" {
		return
	}
	// only allocated objects: the fields of addresses at or above top are the values a later
	// allocation (by a callee's contract) will be found to hold
	u.assumeStructural(Term{fmt.Sprintf("(forall ((hx_r Int)) (! %s :pattern (%s)))", u.underAxiomCondsImp(u.allocGuard(st, f.S)), el.S), SBool})
}

// underAxiomConds conjoins the branch conditions under which the array version being
// axiomatised is the current one.
func (u *UnitGen) underAxiomConds(f string) string {
	if len(u.axiomConds) == 0 {
		return f
	}
	return "(and " + strings.Join(u.axiomConds, " ") + " " + f + ")"
}

func (u *UnitGen) underAxiomCondsImp(f string) string {
	if len(u.axiomConds) == 0 {
		return f
	}
	return "(=> (and " + strings.Join(u.axiomConds, " ") + " true) " + f + ")"
}

// iteParts splits "(ite c a b)" where a and b are plain names.
func iteParts(def string) (c, a, b string, ok bool) {
	if !strings.HasPrefix(def, "(ite ") || !strings.HasSuffix(def, ")") {
		return
	}
	body := def[5 : len(def)-1]
	c = firstSexp(body)
	rest := strings.TrimSpace(body[len(c):])
	a = firstSexp(rest)
	b = strings.TrimSpace(rest[len(a):])
	if c == "" || a == "" || b == "" || strings.ContainsAny(a, " ()") || strings.ContainsAny(b, " ()") {
		return "", "", "", false
	}
	return c, a, b, true
}

// allocGuard restricts a well-typedness fact that bounds a pointer by the allocation frontier to
// allocated objects; facts about plain values (integer ranges, lengths) hold for every address.
func (u *UnitGen) allocGuard(st *State, f string) string {
	if !strings.Contains(f, "top") {
		return f
	}
	return fmt.Sprintf("(=> (and (<= 0 hx_r) (< hx_r %s)) %s)", u.top(st).S, f)
}

func (u *UnitGen) mapKeys(mt types.Type) (dk, vk string, ds, vs Sort) {
	m := mt.Underlying().(*types.Map)
	ks := u.g.reg.SortOf(m.Key())
	es := u.g.reg.SortOf(m.Elem())
	n := shortTypeName(mt.Underlying())
	u.keyType["MV:"+n] = m.Elem()
	u.mapKeyType["MV:"+n] = m.Key()
	u.mapKeyType["MD:"+n] = m.Key()
	return "MD:" + n, "MV:" + n, ArraySort(SInt, ArraySort(ks, SBool)), ArraySort(SInt, ArraySort(ks, es))
}

func (u *UnitGen) sentKeys(ct types.Type) (dk, lk string, ds, ls Sort) {
	c := ct.Underlying().(*types.Chan)
	es := u.g.reg.SortOf(c.Elem())
	n := shortTypeName(c.Elem())
	return "SD:" + n, "SL:" + n, ArraySort(SInt, ArraySort(SInt, es)), ArraySort(SInt, SInt)
}

// recvKey: ghost counter of receives per channel (recvd(ch) in contracts).
func (u *UnitGen) recvKey(ct types.Type) (string, Sort) {
	// one counter array for channels of every element type: references of allocated objects
	// are distinct across types, so a shared array is sound (aliasing of two channel-typed
	// inputs of different types can only make a proof fail, never pass)
	return "RV:all", ArraySort(SInt, SInt)
}

func (u *UnitGen) lockKey(structT types.Type, field string) (string, Sort) {
	return fmt.Sprintf("LK:%s.%s", shortTypeName(structT), field), ArraySort(SInt, SInt)
}

func (u *UnitGen) top(st *State) Term { return u.get(st, "top", SInt) }

// alloc returns a fresh non-nil reference.
func (u *UnitGen) alloc(st *State, base string) Term {
	top := u.top(st)
	r := u.define(base, top)
	u.setDef(st, "top", App(SInt, "+", top, IntN(1)))
	for _, tr := range u.trackers {
		tr.allocs[r.S] = true
	}
	return r
}

// assumeType emits the facts every value of Go type t satisfies.
func (u *UnitGen) assumeType(st *State, v Term, t types.Type) {
	u.assumeStructural(Implies(st.reach, u.typeFacts(st, v, t)))
}

func (u *UnitGen) typeFacts(st *State, v Term, t types.Type) Term {
	t = types.Unalias(t)
	if isOpaqueStruct(t) {
		return TTrue
	}
	switch b := t.Underlying().(type) {
	case *types.Basic:
		if b.Info()&types.IsInteger != 0 {
			lo, hi := intRange(b)
			return And(App(SBool, "<=", IntLit(lo), v), App(SBool, "<=", v, IntLit(hi)))
		}
	case *types.Pointer, *types.Map, *types.Chan:
		return And(App(SBool, "<=", IntN(0), v), App(SBool, "<", v, u.top(st)))
	case *types.Signature:
		return App(SBool, "<=", IntN(0), v)
	case *types.Interface:
		return And(App(SBool, "<=", IntN(0), App(SInt, "itag", v)),
			Implies(Eq(App(SInt, "itag", v), IntN(0)), Eq(App(SInt, "ipay", v), IntN(0))))
	case *types.Slice:
		return And(App(SBool, "<=", IntN(0), App(SInt, "len_"+string(v.Sort), v)), App(SBool, "<=", App(SInt, "len_"+string(v.Sort), v), IntLit("9223372036854775807")))
	case *types.Struct:
		si := u.g.reg.structInfoOf(t)
		var fs []Term
		for i := 0; i < b.NumFields(); i++ {
			fs = append(fs, u.typeFacts(st, App(si.fsorts[i], si.fields[i], v), b.Field(i).Type()))
		}
		return And(fs...)
	}
	return TTrue
}

func intRange(b *types.Basic) (string, string) {
	switch b.Kind() {
	case types.Int8:
		return "-128", "127"
	case types.Int16:
		return "-32768", "32767"
	case types.Int32, types.UntypedRune:
		return "-2147483648", "2147483647"
	case types.Int, types.Int64, types.UntypedInt:
		return "-9223372036854775808", "9223372036854775807"
	case types.Uint8:
		return "0", "255"
	case types.Uint16:
		return "0", "65535"
	case types.Uint32:
		return "0", "4294967295"
	case types.Uint, types.Uint64, types.Uintptr:
		return "0", "18446744073709551615"
	}
	return "-9223372036854775808", "9223372036854775807"
}

// wrap makes machine wrap-around explicit for an arithmetic result.
func wrapInt(v Term, b *types.Basic) Term {
	lo, hi := intRange(b)
	var width string
	switch b.Kind() {
	case types.Int8, types.Uint8:
		width = "256"
	case types.Int16, types.Uint16:
		width = "65536"
	case types.Int32, types.Uint32:
		width = "4294967296"
	default:
		width = "18446744073709551616"
	}
	in := And(App(SBool, "<=", IntLit(lo), v), App(SBool, "<=", v, IntLit(hi)))
	if b.Info()&types.IsUnsigned != 0 {
		return Ite(in, v, App(SInt, "mod", v, IntLit(width)))
	}
	// signed: ((v - lo) mod width) + lo
	return Ite(in, v, App(SInt, "+", App(SInt, "mod", App(SInt, "-", v, IntLit(lo)), IntLit(width)), IntLit(lo)))
}

// ---------------------------------------------------------------------------
// Addresses

type pathElem struct {
	field int        // struct field index (idx == nil)
	st    types.Type // struct type the field belongs to
	idx   *Term      // array index
	elemT types.Type
}

type Addr struct {
	local  string // local variable key
	global string
	ref    Term
	objT   types.Type // pointee type at base (heap)
	path   []pathElem
	valT   types.Type // type stored at this address
	slice  *Term      // element of a slice value (read-only)
}

func (a *Addr) extend(p pathElem, valT types.Type) *Addr {
	n := *a
	n.path = append(append([]pathElem{}, a.path...), p)
	n.valT = valT
	return &n
}

func (u *UnitGen) loadPath(v Term, path []pathElem) Term {
	for _, p := range path {
		if p.idx != nil {
			v = Select(v, *p.idx)
			continue
		}
		if isOpaqueStruct(p.st) {
			v = IntN(0)
			continue
		}
		si := u.g.reg.structInfoOf(p.st)
		v = App(si.fsorts[p.field], si.fields[p.field], v)
	}
	return v
}

func (u *UnitGen) storePath(v Term, path []pathElem, nv Term) Term {
	if len(path) == 0 {
		return nv
	}
	p := path[0]
	if p.idx != nil {
		inner := u.storePath(Select(v, *p.idx), path[1:], nv)
		return Store(v, *p.idx, inner)
	}
	if isOpaqueStruct(p.st) {
		return v
	}
	si := u.g.reg.structInfoOf(p.st)
	args := make([]Term, len(si.fields))
	for i := range si.fields {
		args[i] = App(si.fsorts[i], si.fields[i], v)
	}
	args[p.field] = u.storePath(args[p.field], path[1:], nv)
	return App(si.sort, si.ctor, args...)
}

func isStructT(t types.Type) bool {
	if isOpaqueStruct(t) {
		return false
	}
	_, ok := t.Underlying().(*types.Struct)
	return ok
}

func (u *UnitGen) load(st *State, a *Addr) Term {
	reg := u.g.reg
	switch {
	case a.slice != nil:
		return u.loadPath(Select(reg.SlData(*a.slice), *a.path[0].idx), a.path[1:])
	case a.local != "":
		return u.loadPath(u.get(st, a.local, u.varSort[a.local]), a.path)
	case a.global != "":
		return u.loadPath(u.get(st, a.global, u.varSort[a.global]), a.path)
	}
	if isStructT(a.objT) {
		stt := a.objT.Underlying().(*types.Struct)
		if len(a.path) == 0 {
			si := reg.structInfoOf(a.objT)
			if len(si.fields) == 0 {
				return Term{si.ctor, si.sort}
			}
			args := make([]Term, stt.NumFields())
			for i := range args {
				k, so := u.fieldKey(a.objT, i)
				args[i] = Select(u.get(st, k, so), a.ref)
			}
			return App(si.sort, si.ctor, args...)
		}
		k, so := u.fieldKey(a.objT, a.path[0].field)
		arr := u.get(st, k, so)
		u.logLoad(k, arr)
		return u.loadPath(Select(arr, a.ref), a.path[1:])
	}
	if isOpaqueStruct(a.objT) {
		return IntN(0)
	}
	k, so := u.cellKey(a.objT)
	arr := u.get(st, k, so)
	u.logLoad(k, arr)
	return u.loadPath(Select(arr, a.ref), a.path)
}

type loadedArr struct {
	key string
	arr Term
}

// logLoad records heap arrays read while a quantified contract expression is evaluated.
func (u *UnitGen) logLoad(key string, arr Term) {
	if u.loadLog != nil {
		u.loadLog[arr.S] = loadedArr{key, arr}
	}
}

func (u *UnitGen) store(st *State, a *Addr, v Term) {
	switch {
	case a.slice != nil:
		unsup("store through a slice element (slices are value-semantic in this model)")
	case a.local != "":
		u.setDef(st, a.local, u.storePath(u.get(st, a.local, u.varSort[a.local]), a.path, v))
		return
	case a.global != "":
		u.setDef(st, a.global, u.storePath(u.get(st, a.global, u.varSort[a.global]), a.path, v))
		return
	}
	if isStructT(a.objT) {
		stt := a.objT.Underlying().(*types.Struct)
		if len(a.path) == 0 {
			si := u.g.reg.structInfoOf(a.objT)
			for i := 0; i < stt.NumFields(); i++ {
				k, so := u.fieldKey(a.objT, i)
				u.markStore(k, a.ref)
				u.setDef(st, k, Store(u.get(st, k, so), a.ref, App(si.fsorts[i], si.fields[i], v)))
			}
			return
		}
		k, so := u.fieldKey(a.objT, a.path[0].field)
		arr := u.get(st, k, so)
		nv := u.storePath(Select(arr, a.ref), a.path[1:], v)
		u.markStore(k, a.ref)
		u.setDef(st, k, Store(arr, a.ref, nv))
		return
	}
	if isOpaqueStruct(a.objT) {
		return
	}
	k, so := u.cellKey(a.objT)
	arr := u.get(st, k, so)
	u.markStore(k, a.ref)
	u.setDef(st, k, Store(arr, a.ref, u.storePath(Select(arr, a.ref), a.path, v)))
}

type typedVal struct {
	key  string
	v    Term
	elem bool
}
